#!/usr/bin/env python3
"""Regenerates MANIFEST.json from the table below (run by hand after adding a check)."""
import json, os, sys
HERE = os.path.dirname(os.path.dirname(os.path.abspath(__file__)))

NOTE_COMMON = ("Trusted: Coq 8.16.1 kernel (coqc full .vo build; vm_compute for case evaluation and finite lemmas; no native_compute); "
               "no axioms declared, Print Assumptions of every property theorem is parsed on each run against an allow-list of standard-library axioms; "
               "the hand-written Gallina model is tied to /repo's current working tree by the behavioural correspondence check (Rust harness = path dependency on /repo, rebuilt every run; "
               "model evaluated by coqc on the same cases); third-party crates (blstrs_plus, sha3, merlin, bulletproofs, serde formats) are idealised interfaces. ")

CHECKS = {
    "C19": dict(
        text="PARTIAL. Theorems: for the hand-written byte codecs (PS public key with its two embedded counts, PS secret key, PS signature, PS proof of knowledge, PS blind-signature context, BBS proof of knowledge) decode(encode x) = x for every key size and every number of responses, and (except for the PS secret key, whose refutation is exhibited: the scalar library's from_repr accepts non-canonical encodings) whatever decodes re-encodes to the very bytes it came from — over abstract fixed-width leaf codecs for compressed points, and with the big- and little-endian canonical scalar codecs proved to be such leaves; the two decoders of the pinned tree that could not accept any encoding are characterised (repaired). "
             "The serde data-model layer (claim types, hashed claims, claims, validators with skipped bounds, claim schemas with skipped validator lists, credential schemas with skipped label / description and the order-preserving set adapters) is an executable model of what the Serialize impls hand to human-readable and to binary serializers, with by-name and positional decoders; for which decode-by-name after serialise is proved to return the object for every claim, validator, claim schema and credential schema and both kinds of serializer, and positional (BARE) decoding of validators is proved to succeed when no bound was skipped and refuted otherwise (the known finding). The concrete syntaxes of serde_json / serde_cbor / serde_bare and the derived impls without attributes are covered by round trips only. "
             "Correspondence: every object kind x {JSON, CBOR, BARE} x {BBS, PS}: decode(encode(x)) succeeds, re-encodes to the same bytes, has the same JSON and CBOR encodings as x (the decoded object is the original) and gives the same verdict when used (issuance decision on conformant and violating claim vectors, presentation creation / verification, refresh and re-issue from a restored issuer, blind signing, unblinding); a recording serde Serializer dumps the data-model tree of the real impls, compared with the model's tree for both kinds of serializer; BARE success is compared with the model's skipped-field predicate; every hand-written from_bytes is compared byte for byte with the layout model on honest and mutated encodings (point validity handed to the model as a table).",
        design="§7 C19, §15",
        note="Known finding: BARE cannot decode an object with a skipped optional field. Third-party: serde format crates, blstrs_plus point / scalar codecs (leaf hypotheses), bulletproofs RangeProof bytes.",
        technique="Coq theorems (list induction over fixed-width leaf sequences, length arithmetic) about executable layout models + executable serde data-model trees, tied to credx by round-trip, tree-dump and byte-for-byte differential correspondence"),
    "C20": dict(
        text="PARTIAL. Theorems, for every input: the claim text parser, the claim byte parser and both scalar unpackers never reach a checked primitive (range slicing, array indexing, the scalar library's panicking hex decoder) with an argument on which it unwinds; the structural skeleton of Presentation::verify (dispatch, reported-claim comparison, hidden-message index walk of both suites, every verifier's structural tests, response-count and index checks of both proofs of signature knowledge) never unwinds for any structure (missing entries, dangling / mistyped references, unsorted or out-of-range indices, response vectors and keys of any length) and any outcome of every cryptographic test, and a structure it rejects when every test passes is rejected whatever the tests say. Termination is structural. "
             "The same for the skeleton of Presentation::create with get_message_types and the equality builder (every credential map and statement list with unique map keys; invariants on the shared-blinder marks, the proof-message table and the builder-index map) and for the skeletons of blind-request creation, blind signing with context verification, request verification and unblinding. The serde decoders and the hand-written byte codecs have no Coq model of their control flow in this property (the codecs have one under C19): they are covered by the mutation harness only. "
             "Correspondence / search: all strings of length 0..3 (thorough 0..4) over an 18-symbol alphabet plus prefixed and random strings, byte strings and scalars for the parsers (full result compared with the model); one structural mutation at every key, index, reference, list and flag (sampled for retyping and leaf bytes) of the CBOR tree of presentations, schemas, credential maps, issuer public data, blind requests, known/blind claim maps and blind bundles, both suites, decoded and handed to verify, create, blind_sign_credential, BlindCredentialRequest::verify, to_unblinded, BlindCredentialRequest::new (each compared with its skeleton evaluated under the all-pass oracle) and the decryption methods; byte-level mutations of CBOR/BARE/JSON encodings; arbitrary and mutated bytes for every hand-written from_bytes, and the compact BBS public key with a boundary list of announced message counts, expanded. Any panic is reported with its source location; the thorough tier repeats the exploration on the library built with overflow checks and debug assertions.",
        design="§7 C20, §14",
        note="A panic inside a third-party crate is visible only to the harness. Known finding: JSON decoding panics inside blstrs_plus' hex decoder. Known finding: a received compact BBS public key announcing 2^32 or more messages aborts the process or panics in decompress (no bound on the count). A harness process that dies or hangs on an op is attributed to that op and reported (abort / non-termination are part of the property).",
        technique="Coq theorems (induction over the index walk with the cursor invariant j <= i, pigeonhole bound on the known-index set, case analysis of every branch) about executable models with panicking primitives + mutation-based differential correspondence / panic search against credx"),
    "C18": dict(
        text="Theorems over all of i64 / all byte strings / all claims: zero-centring value, strict monotonicity, injectivity, canonicity and inverse of the integer encoding; "
             "pack/unpack round trip, canonicity and injectivity for <=31-byte text/bytes; injectivity of the SHAKE pre-images (hashed, revocation, enumeration) and collision-freeness of to_scalar under a collision-resistant hash; "
             "byte-codec round trip outside three exhibited lossy classes (known findings); text-codec round trip for every claim. Correspondence: ~15k cases quick / ~600k thorough (all 16-bit lane patterns) compared model vs credx, plus an implementation-only property oracle.",
        design="§7 C18",
        note="SHAKE-256 is an oracle (the harness recomputes to_scalar from the model's pre-image); UTF-8 validity is a parameter of the theorems with an executable instance for evaluation; Rust str/int parsing, hex, serde_bare, blstrs_plus canonical decoding are modelled by hand.",
        technique="Coq theorems (lia/induction) over an executable Gallina model + differential correspondence against credx"),
    "C08": dict(
        text="Theorems over all (v, lower, upper) in i64 x option i64 x option i64: the honest prover's commit succeeds iff lower<=v<=upper (debug and release builds), its u64 offsets never overflow in range and equal the verifier's field offsets applied to the signed scalar (same blinding), "
             "and the verifier's 64-bit range proofs on the adjusted commitments are satisfiable iff the value is in range (no field wrap-around since r > 2^65). Correspondence: Presentation::create/verify (+BARE round trip) over the boundary lattice product and random triples, BBS and PS.",
        design="§7 C08",
        note="bulletproofs-bls idealised as a sound and complete 64-bit range proof with binding Pedersen commitments; the commitment's link to the signed claim is C05.",
        technique="Coq theorems (lia over Z with explicit 2^64 wrap and the concrete modulus r) + differential end-to-end correspondence"),
    "C13": dict(
        text="Theorems over every operation sequence (fold over the op list, any length): registry invariant (duplicate-free ordered sets, active subset of elements, divided-out identifiers = elements minus active, each exactly once); "
             "refinement of the concrete registry to the abstract issued/revoked sets with identical outcomes (active = issued minus revoked); an operation that returns an error leaves the state equal; refresh iff active; issuance refused iff revoked, forever; "
             "in the exponent model the published value changes only by a successful revocation, a fresh handle verifies, a handle verifies iff the value it was made for is the current one. "
             "Correspondence: every sequence of depth <= 2 (thorough: 3) over a 23-operation alphabet after three prefixes plus random histories, BBS and PS, compared step by step (result, ordered sets, accumulator exponent, witness.verify of every handle).",
        design="§7 C13",
        note="Hypotheses of the algebraic theorems: abstract field (is_field K), h(id)+alpha <> 0, batch divisor <> 1 for stale handles. Claims given to issuance are conformant (C15). Persist/restore through JSON and CBOR.",
        technique="Coq theorems (invariant + refinement by induction over operation lists; field tactic for the accumulator) + differential correspondence of issuer histories"),
    "C14": dict(
        text="Theorems for batches of every size and order over an abstract field: the telescoping identities for v_A and v_D, the coefficient identity (y+alpha)*Omega(y) = V*(P_A*d_D(y)/P_D - d_A(y)), hence batch update of a membership witness verifies against the new accumulator and equals the from-scratch witness whenever y is not deleted; "
             "multi-batch update equals one batch update per epoch for every list of batches (induction), hence is correct over whole published histories and independent of the grouping into calls; deleted elements leave the witness unchanged, which cannot verify against a changed value; "
             "single-step update correct for one addition / one deletion and refuted for two additions (known finding); non-membership creation and batch update verify with d scaled by d_A(y)/d_D(y). "
             "Correspondence: random histories (1..4 epochs quick, 1..6 thorough; 0..5 additions/deletions; y outside/added/deleted; random grouping), every implementation point compared with G*(model exponent).",
        design="§7 C14",
        note="Polynomial arithmetic of the code (+=, -=, *=[j,-1], scalar *=, evaluate) is modelled literally on coefficient lists, G1 points by discrete logs. Hypotheses: d+alpha <> 0 for deleted elements (code panics otherwise), d_D(y) <> 0, y+alpha <> 0 for uniqueness. Model executed on Bignums BigZ mod r.",
        technique="Coq theorems (field/ring tactics + list induction over batches and histories) + differential correspondence with exact point comparison"),
    "C01": dict(
        text="PARTIAL. Theorems for every presentation object and every outcome of the challenge comparison: acceptance implies that each signature statement is matched with a signature proof under its own id (no other variant, not omitted), that its response vector has exactly hidden+2 entries (so the truncating multi-scalar multiplication cannot drop the challenge), that identity elements are rejected, that the Fiat-Shamir comparison was made on the recomputed items, and that the proof of knowledge passes; special soundness of both proofs of knowledge with explicit extractors is in C17. The reduction 'no signature => no accepting presentation' (q-SDH / PS assumption, forking lemma, ROM) is assumed, not proved. "
             "Correspondence: external deviating prover (16 deviation kinds incl. the exploited hidden+3 response vector) x 5 schema shapes x BBS/PS against Presentation::verify and the Coq verifier model.",
        design="§7 C01",
        note="Computational assumptions (q-SDH, PS, ROM) are not carried by any theorem. Fiat-Shamir is symbolic; hash-derived bases carry pseudo-logs.",
        technique="Coq theorems about an executable verifier model (dispatch/length/FS/PoK checks) + differential correspondence with an external adversarial prover"),
    "C02": dict(
        text="Theorems: for every accepted presentation and every signature statement, the proof's disclosed index list equals the requested index list (ascending, nothing missing, nothing extra), the reported map has the same number of entries, every requested label is reported and carries the scalar the proof of knowledge was verified with; a missing map entry is a rejection. That these scalars are the signed ones rests on C01/C17. "
             "Correspondence: 13 deviation kinds on the reported map and on the proof's index list x 4 shapes x BBS/PS.",
        design="§7 C02",
        note="Labels are abstracted to claim indices through the statement's issuer schema; requested labels the issuer schema does not contain are ignored (the honest holder cannot disclose them; required by the repository's own revocation tests).",
        technique="Coq theorems about the verifier model's disclosed-claim comparison + differential correspondence with deviating holders"),
    "C05": dict(
        text="Theorems: acceptance implies that the commitment verifier's hashed Schnorr commitment is computed with the response the referenced signature proof carries for the referenced claim; for the ascending disclosed list that acceptance forces, the index->slot walk pairs the k-th hidden index with response off+k and the proof of knowledge multiplies that response with the generator of the same index (walk = set semantics, proved by induction over the walk with a cursor invariant), so the lookup cannot be shifted. "
             "Correspondence: substitute value with shared/independent nonce, omitted predicate proof, padded/reversed/aliased/shortened index lists, foreign inner id x 4 shapes x BBS/PS.",
        design="§7 C05",
        note="Modelled predicate kinds: commitment, equality, revocation and set membership (the accumulator proof's recomputed commitments are one opaque transcript item computed by the harness with MembershipProof::finalize; the theorem C05_accept_revocation_link says acceptance forces the proof's element response to be the signature proof's response for the referenced claim; the external holder runs the library's MembershipProofCommitting on another credential's identifier and handle / another element of the set); encryption: C10.",
        technique="Coq theorems (induction over the index walk; verifier model) + differential correspondence with deviating holders"),
    "C09": dict(
        text="Theorems: acceptance of an equality statement implies a non-empty reference list and one scalar v such that every referenced (signature statement, claim) yields response v through the checked extraction path; with special soundness (C17) equal responses under two challenges give equal extracted signed values; and for the honest side, a model of the prover's blinder propagation with the theorem that any two claims named by one equality statement end up with the same proof message whatever the number, overlap and order of the statements (refuted, with the witness (b=c, a=b), for the pinned tree's statement-by-statement copying; repaired). "
             "Correspondence: 2..3 credentials, same/different issuers; unequal values with shared, independent and copied nonces, omitted equality proof, tampered referenced proofs; BBS/PS; plus the completeness half on the implementation: honest Presentation::create -> verify over 3..4 credentials with the equalities written as one statement, a chain of pairwise statements or a star, in any schema order.",
        design="§7 C09",
        note="Extraction against arbitrary efficient provers is the usual ROM step (assumed).",
        technique="Coq theorems about the verifier model's equality check + differential correspondence with deviating holders"),
    "C17": dict(
        text="Theorems for every key capacity, message vector and reveal/hide mask (list induction; field tactic over an abstract field): BBS and PS sign-then-verify; a valid signature fails under another weighted message sum (single change under a non-zero generator), another signature component, another e, another key; proof of knowledge complete for every partition (partition identity msm = revealed + hidden); special soundness with explicit extractors (BBS: opening of the public term and, for v<>0, a valid (A',e') on the complete vector; PS: opening of J and a valid signature (s1, s2 - t*s1)); commitment sub-protocol extraction. "
             "Correspondence at the knox level: all 2^n partitions for n<=4, random partitions and 13 deviation kinds for capacities 1..8 (thorough 1..16), signature verification after every single-component change, and the complete get_hidden_message_proofs map, BBS and PS.",
        design="§7 C17",
        note="Unforgeability (q-SDH / PS assumption) is assumed. Hash-derived values (BBS e, generators; PS m', sigma_1) are arbitrary in the theorems and pseudo-logs in executed cases.",
        technique="Coq theorems (field/ring + list induction; explicit extractors) + differential correspondence at the signature-suite API"),
    "C15": dict(
        text="Theorems for every schema, claim vector and registry state: sign_credential returns Ok exactly when the vector has the schema's length, every claim has the declared type and every declared validator evaluates to Some true on it (an inapplicable validator refuses), it contains exactly one revocation claim and that identifier is not revoked; then it records exactly that identifier; it never panics; validator semantics (inclusive bounds, defaults); CredentialSchema::new succeeds iff labels non-empty, duplicate-free and containing every blindable label; returned signature and handle valid (C17/C13 theorems). "
             "Correspondence: 4000 (thorough 40000) generated (schema, vector, state) cases incl. every mutation class + 240 schema constructions, BBS and PS, decision compared with the Coq function and returned credentials verified on the implementation.",
        design="§7 C15",
        note="regex matching / UTF-8 validity are arbitrary functions in the theorems; executed cases take the regex answers from the regex crate evaluated independently by the harness.",
        technique="Coq theorems (decision function = specification, by induction over the claim/schema lists) + differential correspondence"),
    "C03": dict(
        text="Theorems: per-statement completeness for every key size, reveal/hide partition, generator, value, randomness and challenge — BBS and PS proofs of knowledge (the verifier's recomputed commitment equals the prover's, pairing equation, response count), the commitment sub-protocol, and the index->slot alignment that makes every predicate verifier read the honest response of the referenced claim; the verifier model composes them by a fold over the schema. Revocation / membership / range / verifiable-encryption sub-protocols are not modelled in Coq. "
             "Correspondence: (a) honest external prover vs Coq verifier model vs Presentation::verify (56 quick / 280 thorough schemas); (b) Presentation::create on generated well-formed schemas with every statement kind and 1..3 credentials -> verify, also after BARE, CBOR and JSON round trips (110 quick / 900 thorough).",
        design="§7 C03",
        note="Composition of the per-statement lemmas into one theorem about a Gallina `create` is not done; the honest prover of the implementation is tied to the model only through the verifier (its output is accepted by the real verifier, whose model is validated separately). bulletproofs, AES-GCM, hash-to-curve idealised. Known finding: JSON cannot decode presentations containing bulletproofs.",
        technique="Coq theorems (per-statement completeness, slot alignment) + differential correspondence of honest provers (external and Presentation::create) against verifier model and implementation"),
    "C04": dict(
        text="Theorem: the verifier-side transcript (nonce, schema id, statement count, and for every statement of all eight kinds every absorbed field, including the issuer public data and the credential-schema labels) has a decoder that is a left inverse of the encoder for every nonce and every well-formed schema (any number and order of statements), hence equal transcripts imply equal nonce and equal schema, field by field; LEB128 round trip for 128-bit values. With the hash idealised, a presentation's challenge binds exactly this context. "
             "Correspondence: for honestly created presentations over generated schemas, ~38 kinds of single-field mutations (each field of the theorem's schema type) must make Presentation::verify fail, and the transcript digest computed by the library's own add_challenge_contribution must change exactly when the Coq payload sequence changes.",
        design="§7 C04",
        note="merlin idealised (injective framing, collision-resistant challenge). Not bound, and outside the property's list: claim types / validators of the issuer's credential schema; None vs empty label/description.",
        technique="Coq theorem (decoder is a left inverse of the transcript encoder => injectivity) + differential correspondence of transcript digests and verification verdicts under single-field mutations"),
    "C11": dict(
        text="Theorems for the modelled proof kinds (BBS / PS signature proofs, commitment, equality): a changed response changes the value of the verifier's multi-scalar multiplication (so BBS' t comparison fails and PS' hashed commitment changes) whenever its point is not the identity; the group elements of a proof of knowledge are transcript items; a changed blinder or message response changes the hashed blind commitment; acceptance relative to the derived challenge forces identical transcript items; an underived challenge, an altered carried id, a removed or replaced signature proof are rejected. "
             "Correspondence: post-creation modifications of external-prover presentations against model and implementation; and on Presentation::create output over every statement kind: every scalar / point leaf x 5 replacement kinds, proofs removed / swapped, challenge, disclosed values / labels, BARE byte and bit flips (quick ~5000 mutations).",
        design="§7 C11",
        note="Revocation / membership / range / verifiable-encryption leaves are covered on the implementation only. Panics while decoding corrupted bytes are not acceptance; they are C20's subject.",
        technique="Coq theorems (algebraic tamper lemmas + verifier-model consequences) + exhaustive single-site mutation of honest presentations on the implementation"),
    "C07": dict(
        text="PARTIAL. Theorems: perfect honest-verifier zero knowledge of the commitment sub-protocol (for every challenge and every two values an explicit bijection of the randomness gives identical published and hashed tuples); every Schnorr response is a bijective image of its nonce; the encryption sub-protocol's view is a function of the ElGamal ciphertext and uniform responses; re-randomised signature elements are credential-independent (C12); what a shared or reused nonce reveals. Semantic security of ElGamal (DDH), zero knowledge of bulletproofs and of the accumulator proof are assumed. "
             "Search on the implementation: the distinguisher catalogue (two-term relations of every transmitted element against all public generators with the nonce solved from the response, per-byte dictionary tests, pairwise response differences) on Presentation::create output for commitment / range / encryption (+scalar decryption) / encrypt-and-decrypt statements with the signed value and decoys.",
        design="§7 C07",
        note="Computational assumptions (DDH/DLIN, bulletproof ZK) are not carried by any theorem. The implementation's prover is tied to the model through the verifier (C03/C05) and the distinguisher catalogue; a full wiring recovery through a scripted RNG is not built. Fixed defect b4949f5 (nonce reused as blinding factor / encryption randomness / byte nonce) is recorded with its refutation theorem.",
        technique="Coq theorems (explicit simulators / bijections on the randomness) + public-data distinguisher catalogue on honest presentations"),
    "C12": dict(
        text="PARTIAL. Theorems: for any two valid signatures of an issuer there is an explicit bijection on the prover's randomness under which the published BBS pair (a_bar, b_bar) resp. PS pair (sigma_1', sigma_2') coincide, so these elements are the same function of fresh randomness whichever credential produced them; a nonce reused across presentations reveals its secret. With C07's lemmas the remaining proof material is uniform or an encryption under fresh randomness (DDH/DLIN assumed). "
             "Search on the implementation: three presentations per case (two from one credential, one from another credential of the same issuer): leaf equality at equal positions, cross-presentation nonce reuse for every hidden claim, pairing cross-ratios of G1 x G2 leaves.",
        design="§7 C12",
        note="As C07. The linking catalogue is finite; the re-randomisation theorems carry the claim for the signature material.",
        technique="Coq theorems (re-randomisation bijections) + linking-test catalogue on honest presentations"),
    "C06": dict(
        text="PARTIAL. Theorems: the VB20 zero-knowledge membership sub-protocol is complete for every handle valid for the statement's registry value and, run honestly with a handle that is not valid for it, produces a recomputed commitment different from the hashed one for every non-zero challenge; special soundness with an explicit extractor (a valid witness for the extracted element, linked to the signed identifier's response); with C13 a refreshed handle is valid and a handle from before a revocation is not; with C14 the single-step public update across another identifier's revocation is valid and across the holder's own revocation returns the handle unchanged. That no efficiently computable handle exists for a revoked identifier is q-SDH, assumed. "
             "Correspondence: issuer histories over 2..4 holders; after every operation every holder presents against the current registry value with 5 kinds of handles; ~4800 presentations (quick) compared with the verdict derived from the Coq registry model's trace.",
        design="§7 C06",
        note="Hypotheses: non-degeneracy (id+alpha <> 0, batch divisor <> 1, X,Y <> 0, non-zero challenge). The issuer publishes no batch coefficients, so public updates are exercised for single-identifier revocations.",
        technique="Coq theorems (field tactic: completeness / invalid-witness / extractor of the membership proof, composed with the registry and update theorems) + differential correspondence of presentation verdicts over issuer histories"),
    "C10": dict(
        text="Theorems: acceptance of an encryption statement implies that its hashed Schnorr commitments are computed with the response of the referenced signed claim and, when the statement requests scalar decryption, that the proof carries the decryptable part; completeness of the sub-protocol; group decryption c2 - dk*c1 = gm*m for the ElGamal pair the transcripts open to; view/extraction lemmas in C07/C17. The reassembly of the scalar from the byte decomposition is modelled and proved: every byte string that passes the verifier's field sum check reassembles to the signed claim (and, refuted for the pinned tree, the decomposition of m + r passed the check and decrypted to nothing for every claim below 2^256 - r; repaired); the per-byte Schnorr proofs and the 8-bit bulletproofs are not modelled in Coq. "
             "Correspondence: external prover (honest, substitute plaintext with shared / independent nonce, omitted proof, altered response, omitted decryptable part) against model and implementation; decrypt / decrypt_scalar / decrypt_and_verify of Presentation::create output for every claim type and value class with standard and hashed generators; a hand-written holder for the byte decomposition (honest calibration; bytes of another value with related and with unrelated byte randomness; the integer m + r): whatever is accepted must decrypt to the signed scalar.",
        design="§7 C10",
        note="bulletproofs soundness, AES-GCM idealised. Known finding: decrypt_scalar works only for the standard generator. Deviations inside the byte decomposition are exercised by a hand-written holder for the encryption statement; and by a second hand-written holder for the encrypt-and-decrypt proof (other text in the symmetric part, scaled generator carried in the proof); neither is modelled in Coq.",
        technique="Coq theorems about the verifier model (linkage, required decryptable part, group decryption) + differential correspondence + decryption checks on honest presentations"),
    "C16": dict(
        text="Theorems: the issuer's recomputation equals the holder's hashed commitment for every request that lists the hidden claims in index order and covers exactly the claims the issuer does not supply (any schema size, both suites); unblinded blind signatures satisfy the ordinary verification equation over the union of issuer-known and hidden claims; the response vector has exactly one entry per unsupplied claim (+1 for PS), and two accepting transcripts open the commitment on the unsupplied claims' generators only; the label policy (declared blindable, disjoint from the issuer's, no repeats, counts add up); PS requests are perfectly hiding (bijection on the blinding factor); BBS requests are not (refutation theorem, known finding). "
             "Correspondence: 4 label sets x every non-empty hidden subset x BBS/PS through the public API (incl. credentials presenting) with tampered requests, and an external holder's contexts against the Coq issuer-side model.",
        design="§7 C16",
        note="Fiat-Shamir symbolic; the external holder replicates the request transcript labels (a consistent relabelling in the library would desynchronise it and be reported with no-failing-input-found). BBS hiding is a known finding.",
        technique="Coq theorems (completeness, special soundness, policy, hiding bijection) + exhaustive-subset differential correspondence of the three-step protocol"),
}

PLANNED = {
    "C01": "check not built yet (planned: verifier model + external adversarial prover, DESIGN §7 C01)",
    "C02": "check not built yet (planned, DESIGN §7 C02)",
    "C03": "check not built yet (planned, DESIGN §7 C03)",
    "C04": "check not built yet (planned, DESIGN §7 C04)",
    "C05": "check not built yet (planned, DESIGN §7 C05)",
    "C06": "check not built yet (planned, DESIGN §7 C06)",
    "C07": "check not built yet (planned, DESIGN §7 C07)",
    "C08": "check not built yet (planned, DESIGN §7 C08)",
    "C09": "check not built yet (planned, DESIGN §7 C09)",
    "C10": "check not built yet (planned, DESIGN §7 C10)",
    "C11": "check not built yet (planned, DESIGN §7 C11)",
    "C12": "check not built yet (planned, DESIGN §7 C12)",
    "C13": "check not built yet (planned, DESIGN §7 C13)",
    "C14": "check not built yet (planned, DESIGN §7 C14)",
    "C15": "check not built yet (planned, DESIGN §7 C15)",
    "C16": "check not built yet (planned, DESIGN §7 C16)",
    "C17": "check not built yet (planned, DESIGN §7 C17)",
    "C19": "check not built yet (planned, DESIGN §7 C19)",
    "C20": "check not built yet (planned, DESIGN §7 C20)",
}

HOOK_COMMITS = []


def main():
    checks = []
    for pid in sorted(CHECKS):
        c = CHECKS[pid]
        checks.append({
            "property_id": pid,
            "quick_cmd": f"./check {pid} --tier quick",
            "thorough_cmd": f"./check {pid} --tier thorough",
            "evidence_file": f"/verif/evidence/{pid}.json",
            "replay_cmd_template": f"./check {pid} --replay {{path}}",
            "engine": "coq-model+acvh-harness",
            "level_claimed": {"category": "proof", "text": c["text"], "design_ref": c["design"]},
            "level_note": NOTE_COMMON + c["note"],
            "technique": c["technique"],
        })
    m = {
        "version": 1,
        "setup_cmd": "./check --setup",
        "hooks": {
            "guard": "none needed: no hook or instrumentation was added to /repo (planned hooks H1-H3 of DESIGN §5.2 turned out to be unnecessary: the recomputed challenge is read from the error text, randomness wiring is recovered from outputs, proof parameters are not overridden)",
            "enable": "nothing to enable: the harness crate /verif/harness depends on credx by path with default features and uses only its public API, serde and catch_unwind",
            "baseline_off_cmd": "cd /repo && cargo test --workspace --no-fail-fast --offline",
            "source_commits": HOOK_COMMITS,
            "add_only": True,
        },
        "engines": [
            {"name": "coq-model", "path": "coq/", "serves_properties": sorted(CHECKS),
             "kind_free_text": "hand-written executable Gallina model, lemmas and property theorems (Coq 8.16.1)"},
            {"name": "acvh-harness", "path": "harness/", "serves_properties": sorted(CHECKS),
             "kind_free_text": "Rust executor of credx (path dependency on /repo) used by the correspondence check; lib/*.py generate cases, run coqc, compare"},
        ],
        "checks": checks,
        "not_applicable": [{"property_id": k, "reason": v} for k, v in sorted(PLANNED.items()) if k not in CHECKS],
        "notes": "See DESIGN.md. known-findings.txt lists genuine defects recorded or fixed.",
    }
    with open(os.path.join(HERE, "MANIFEST.json"), "w") as fh:
        json.dump(m, fh, indent=1)
        fh.write("\n")


if __name__ == "__main__":
    main()
