"""C13 — issuer registry coherence: atomic operations, bookkeeping matches accumulator."""
import itertools, random
import common as C

EXTRA_VO = ["Exec/RunC13.vo"]
HEADER = """From Coq Require Import NArith List String.
From ACV Require Import Model.Registry Exec.RunC13.
Import ListNotations. Open Scope N_scope. Open Scope string_scope."""

TRUSTED_BASE = [
    "Coq 8.16.1 kernel; Print Assumptions of every C13 theorem: closed under the global context",
    "hand-written model coq/Model/Registry.v of src/revocation_registry.rs and the registry bookkeeping of src/issuer.rs (sign_credential, blind_sign_credential, update_revocation_handle, revoke_credentials)",
    "exponent model of the accumulator: value = v0 / prod (h(id)+alpha) over an abstract field (is_field K hypothesis, no axiom); hypotheses h(id)+alpha <> 0 and, for stale handles, batch divisor <> 1 (probability 1/r each)",
    "correspondence: harness/src/ops_registry.rs (Issuer<BBS|PS> with registry value overwritten by v0*G so that the exponent is explained exactly), lib/c13.py",
]
ASSUMPTIONS = [
    "claims passed to issuance are schema-conformant (C15 covers the validation frontier)",
    "Element::hash (SHAKE-256) is an opaque injective map id -> field",
    "persist/restore is exercised through JSON and CBOR; BARE cannot encode the Issuer (C19 finding)",
]

IDS = [1, 2, 3]
GHOST = 4


def alphabet():
    ops = []
    for i in IDS:
        ops.append({"k": "issue", "id": i})
    for i in (1, 2):
        ops.append({"k": "blind", "id": i, "valid": True})
        ops.append({"k": "blind", "id": i, "valid": False})
    dom = [1, 2, GHOST]
    ops.append({"k": "revoke", "ids": []})
    for a in dom:
        ops.append({"k": "revoke", "ids": [a]})
    for a in dom:
        for b in dom:
            ops.append({"k": "revoke", "ids": [a, b]})
    for i in (1, 2, GHOST):
        ops.append({"k": "refresh", "id": i})
    ops.append({"k": "persist", "fmt": "json"})
    ops.append({"k": "persist", "fmt": "cbor"})
    return ops


def rand_op(rng):
    k = rng.random()
    ids = IDS + [GHOST, 5]
    if k < 0.3:
        return {"k": "issue", "id": rng.choice(ids[:4])}
    if k < 0.42:
        return {"k": "blind", "id": rng.choice(ids[:4]), "valid": rng.random() < 0.6}
    if k < 0.72:
        n = rng.choice([0, 1, 1, 2, 2, 3, 4])
        return {"k": "revoke", "ids": [rng.choice(ids) for _ in range(n)]}
    if k < 0.9:
        return {"k": "refresh", "id": rng.choice(ids)}
    return {"k": "persist", "fmt": rng.choice(["json", "cbor"])}


def coq_op(o):
    k = o["k"]
    if k == "issue":
        return f"Issue {o['id']}"
    if k == "blind":
        return f"BlindIssue {o['id']} {C.cbool(o['valid'])}"
    if k == "revoke":
        return "Revoke [" + ";".join(str(x) for x in o["ids"]) + "]"
    if k == "refresh":
        return f"Refresh {o['id']}"
    return "PersistRestore"


def parse_model(line):
    steps = []
    if not line.strip():
        return steps
    for part in line.split(" | "):
        toks = part.split(" ")
        d = {"res": toks[0]}
        for t in toks[1:]:
            key, _, val = t.partition("=")
            d[key] = [int(x) for x in val.split(",") if x != ""]
        steps.append(d)
    return steps


def oracle(ops, steps):
    """implementation-only reading of the property; returns list of failure texts"""
    out = []
    issued, revoked = set(), set()
    prev = {"e": [], "a": [], "removed": []}
    removed = []
    handle_epoch = []
    for n, (o, s) in enumerate(zip(ops, steps)):
        if s["r"] == "panic":
            out.append(f"step {n} {o}: panic")
        if s["div"] == "unexplained":
            out.append(f"step {n} {o}: registry value changed in a way no division by the batch explains")
            div = []
        else:
            div = s["div"]
        removed = removed + sorted(div)
        changed = s["e"] != prev["e"] or s["a"] != prev["a"] or div
        if s["r"] != "ok" and changed:
            out.append(f"step {n} {o}: returned an error but changed the registry (elements {prev['e']}->{s['e']}, active {prev['a']}->{s['a']}, divided {div})")
        if s["r"] == "ok":
            if o["k"] in ("issue", "blind"):
                issued.add(o["id"])
            if o["k"] == "revoke":
                if sorted(div) != sorted(o["ids"]):
                    out.append(f"step {n} {o}: accumulator divided by {div}, batch was {o['ids']}")
                revoked.update(o["ids"])
            if o["k"] == "persist" and changed:
                out.append(f"step {n}: persist/restore changed the registry")
        elif o["k"] == "persist":
            out.append(f"step {n}: persist/restore ({o['fmt']}) failed")
        if o["k"] == "refresh" and (s["r"] == "ok") != (o["id"] in prev["a"]):
            out.append(f"step {n} {o}: refresh {s['r']} although active was {prev['a']}")
        if o["k"] in ("issue", "blind") and o.get("valid", True) and (s["r"] == "ok") != (o["id"] not in revoked):
            out.append(f"step {n} {o}: issuance {s['r']} although revoked = {sorted(revoked)}")
        if o["k"] == "blind" and not o["valid"] and s["r"] == "ok":
            out.append(f"step {n} {o}: blind issuance accepted an invalid request")
        if set(s["a"]) != issued - revoked:
            out.append(f"step {n} {o}: active {s['a']} but issued-revoked = {sorted(issued - revoked)}")
        if set(s["e"]) != issued or len(set(s["e"])) != len(s["e"]) or len(set(s["a"])) != len(s["a"]):
            out.append(f"step {n} {o}: elements {s['e']} active {s['a']} vs issued {sorted(issued)}")
        if sorted(set(removed)) != sorted(removed) or set(removed) != revoked:
            out.append(f"step {n} {o}: accumulator has divided out {removed} but revoked = {sorted(revoked)}")
        if s["new_handle"]:
            handle_epoch.append(list(removed))
        for j, ok in enumerate(s["hv"]):
            exp = handle_epoch[j] == removed
            if ok != exp:
                out.append(f"step {n} {o}: handle #{j} (from epoch {handle_epoch[j]}) verify={ok} at epoch {removed}")
        prev = {"e": s["e"], "a": s["a"]}
    return out


def explore(ctx):
    tier, seed = ctx["tier"], ctx["seed"]
    rng = random.Random(seed)
    alpha = alphabet()
    seqs = []
    prefixes = [[], [{"k": "issue", "id": 1}, {"k": "issue", "id": 2}],
                [{"k": "issue", "id": 1}, {"k": "issue", "id": 2}, {"k": "revoke", "ids": [2]}]]
    exhaustive_note = ""
    for pi, pre in enumerate(prefixes):
        depth = 2
        if tier == "thorough" and pi == 1:
            depth = 3
        for d in range(1, depth + 1):
            for combo in itertools.product(alpha, repeat=d):
                seqs.append(pre + list(combo))
    n_exh = len(seqs)
    exhaustive_note = (f"all operation sequences of depth <= 2 over an alphabet of {len(alpha)} operations "
                       f"(ids 1..3 issued, id 4 never issued; every revoke batch of length <= 2 over {{1,2,4}} incl. empty, duplicate, unknown) "
                       f"after each of 3 prefixes" + ("; depth 3 after prefix [issue 1, issue 2]" if tier == "thorough" else "")
                       + f" = {n_exh} sequences; plus random sequences")
    n_rand, ln = (6000, 30) if tier == "thorough" else (400, 12)
    for _ in range(n_rand):
        seqs.append([rand_op(rng) for _ in range(rng.randrange(3, ln + 1))])
    if ctx.get("replay"):
        import json
        rp = json.load(open(ctx["replay"]))
        seqs = [rp["case"]["ops"]] if "ops" in rp.get("case", {}) else seqs
    ops = [{"op": "f_registry", "suite": "ps" if i % 2 else "bbs", "ops": s} for i, s in enumerate(seqs)]
    impl = C.run_exec_parallel(ops, nproc=16)
    model = C.run_model("C13", HEADER, ["[" + "; ".join(coq_op(o) for o in s) + "]" for s in seqs], shard_size=600)
    failures, samples = [], []
    hist = {"issue": 0, "blind_valid": 0, "blind_invalid": 0, "revoke_empty": 0, "revoke_1": 0, "revoke_2+": 0, "refresh": 0,
            "persist": 0, "ok": 0, "err": 0, "panic": 0, "bbs": 0, "ps": 0}
    distinct = set()
    for s, op, r, m in zip(seqs, ops, impl, model):
        hist[op["suite"]] += 1
        case = {"suite": op["suite"], "ops": s}
        if r.get("r") != "ok":
            failures.append({"class": None, "witness": True, "text": f"harness/implementation failure {r}", "case": case})
            continue
        steps = r["steps"]
        for o, st in zip(s, steps):
            k = o["k"]
            if k == "blind":
                hist["blind_valid" if o["valid"] else "blind_invalid"] += 1
            elif k == "revoke":
                hist["revoke_empty" if not o["ids"] else ("revoke_1" if len(o["ids"]) == 1 else "revoke_2+")] += 1
            else:
                hist[k] += 1
            hist[st["r"]] = hist.get(st["r"], 0) + 1
        if any(st["r"] == "err" for st in steps) and any(st["r"] == "ok" for st in steps):
            distinct.add(C.case_hash(s))
        orc = oracle(s, steps)
        # model vs implementation, step by step
        diffs = []
        # (explicit comparison below; the model line uses keys e, a, r)
        removed = []
        for n, (o, st) in enumerate(zip(s, steps)):
            part = m.split(" | ")[n]
            toks = part.split(" ")
            mr = toks[0]
            kv = {}
            for t in toks[1:]:
                key, _, val = t.partition("=")
                kv[key] = [int(x) for x in val.split(",") if x != ""]
            if st["div"] != "unexplained":
                removed = removed + list(st["div"])
            if st["r"] != mr or st["e"] != kv["e"] or st["a"] != kv["a"] or sorted(removed) != sorted(kv["r"]):
                diffs.append(f"step {n} {o}: impl r={st['r']} e={st['e']} a={st['a']} divided={removed} / model {part}")
        if len(samples) < 8 and (len(s) >= 4 and rng.random() < 0.01 or len(samples) < 2):
            samples.append({"ops": s, "suite": op["suite"], "impl_steps": [dict(r=x["r"], e=x["e"], a=x["a"], div=x["div"], hv=x["hv"]) for x in steps], "model": m})
        if orc:
            failures.append({"class": None, "witness": True, "text": "; ".join(orc[:4]) + (" || model: " + "; ".join(diffs[:2]) if diffs else ""), "case": case})
        elif diffs:
            failures.append({"class": None, "witness": False, "text": "model/implementation correspondence broken: " + "; ".join(diffs[:4]), "case": case})
    # shrink: report the shortest failing sequence first
    failures.sort(key=lambda f: len(f["case"].get("ops", [])))
    return {
        "evaluations": len(seqs),
        "distinct_nontrivial": len(distinct),
        "rule": "cases = issuer histories over identifiers {1,2,3} (+4,5 never issued): " + exhaustive_note +
                f" ({n_rand} of length <= {ln}); each runs a fresh Issuer (alternating BBS/PS), after every operation compares result class, elements and active (ordered), the accumulator exponent (explained as divisions) and witness.verify of every handle ever handed out with the model, and evaluates the property's reading on the implementation alone; non-trivial = history with at least one failing and one succeeding operation, distinct by operation list",
        "samples": samples,
        "histograms": hist,
        "failures": failures,
        "exhaustive": True,
        "exhaustive_note": exhaustive_note,
    }
