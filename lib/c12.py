"""C12 — unlinkability of presentations from the same credential (partial)."""
import json, random
import common as C
import create_common as CC

EXTRA_VO = []
TRUSTED_BASE = [
    "Coq 8.16.1 kernel; Print Assumptions of every C12 theorem: closed under the global context",
    "PARTIAL: theorems give explicit bijections on the prover's randomness under which the published re-randomised signature elements of BBS (a_bar, b_bar) and PS (sigma_1', sigma_2') coincide for any two valid signatures of the issuer, and show what a reused nonce reveals; together with C07's lemmas the proof material is the same function of fresh randomness whichever credential it came from. Hiding of ElGamal ciphertexts / blinded accumulator witnesses (DDH / DLIN) and fresh OS randomness per presentation are assumed",
    "search: harness/src/ops_create.rs action link — P1, P2 from the same credentials, P3 from other credentials of the same issuers under the same schema; leaf equality at equal positions, cross-presentation nonce reuse (s1 - s2) == (c1 - c2)*m for every hidden claim, repetition of the publicly computable (resp_i - resp_j)/challenge for every pair of hidden claims and of (byte_resp_i - byte_resp_0)/challenge for the byte proofs of decryptable encryptions, pairing cross-ratio e(P_a,Q_b) == e(P_b,Q_a) for G1 leaves P and G2 leaves Q; a relation true for (P1,P2) and false for (P1,P3) is a link",
]
TRUSTED_BASE = TRUSTED_BASE + [
    "the accumulator proof parameters X, Y, Z, K are treated as elements with hidden, independent logs; tie to the code: they are recomputed by the harness as hash-to-curve images of four distinct inputs (op d_proof_params, repeats the prefix bytes and the domain separation tag of vb20) and must equal ProofParams::new",
]
ASSUMPTIONS = ["DDH / DLIN, OS randomness", "disclosed claims and deliberately derived pseudonyms are excluded by the property"]


def explore(ctx):
    tier, seed = ctx["tier"], ctx["seed"]
    rng = random.Random(seed)
    n = 300 if tier == "thorough" else 48
    cs = []
    for i in range(n):
        heavy = (i % 6 == 0)
        s = CC.gen(rng, "ps" if i % 2 else "bbs", n_creds=2, kinds=["rev", "comm", "range", "venc"] + (["vencdec", "vdec"] if heavy else []), heavy=heavy, shared_issuer=True)
        # one signature statement on credential 0; credential 1 (same issuer, same shape) is the alternative
        # the alternative credential satisfies the same range statements (same numbers), everything else differs
        for j, cl in enumerate(s["creds"][0]["claims"]):
            if cl["t"] == "n":
                s["creds"][1]["claims"][j] = dict(cl)
        st = [x for x in s["stmts"] if x["id"].endswith("0")]
        s["stmts"] = st
        s["action"] = {"k": "link", "alt": {"s0": 1}, "same_nonce": (i % 5 == 0)}
        cs.append(s)
    if ctx.get("replay"):
        rp = json.load(open(ctx["replay"]))
        if rp.get("case", {}).get("op") == "f_create":
            cs = [rp["case"]]
    impl = C.run_exec_parallel(cs, nproc=16, timeout=7200)
    failures, samples = [], []
    hist = {"leaves_compared": 0, "g2_leaves": 0, "ratio_hits_same_for_both": 0, "kinds": {}}
    distinct = set()
    for s, r in zip(cs, impl):
        if r.get("create") != "ok" or r.get("verify") != "ok" or "links" not in r:
            failures.append({"class": None, "witness": False, "text": f"honest baseline failed: {json.dumps(r)[:300]}", "case": s})
            continue
        hist["leaves_compared"] += r["n_leaves"]
        hist["g2_leaves"] += r["n_g2"]
        hist["ratio_hits_same_for_both"] += r["ratio_hits_same"]
        for k in CC.kinds_of(s):
            hist["kinds"][k] = hist["kinds"].get(k, 0) + 1
        distinct.add(C.case_hash([s["suite"], s["stmts"], s["action"]["same_nonce"]]))
        for l in r["links"]:
            failures.append({"class": None, "witness": True,
                             "text": f"two presentations of the same credential are linkable: {json.dumps(l)} ({s['suite']}); the relation does not hold against a presentation of another credential", "case": s})
        if len(samples) < 4:
            samples.append({"suite": s["suite"], "stmts": s["stmts"], "n_leaves": r["n_leaves"], "links": r["links"]})
    failures += C.proof_params_pin()
    failures += C.domain_generator_pin()
    return {
        "evaluations": len(cs),
        "distinct_nontrivial": len(distinct),
        "rule": "cases = (credential pair of one issuer and schema, presentation schema with a signature statement and revocation / commitment / range / encryption (with and without scalar decryption) / encrypt-and-decrypt statements on it, same or different nonce): three presentations P1, P2 (same credential) and P3 (other credential) via Presentation::create; linking catalogue evaluated on (P1,P2) and (P1,P3); distinct by (suite, statements, nonce mode)",
        "samples": samples or [{}],
        "histograms": hist,
        "failures": failures,
        "exhaustive": False,
    }
