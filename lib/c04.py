"""C04 — context binding: a presentation verifies only under its own nonce and schema."""
import json, random
import common as C
import create_common as CC

EXTRA_VO = ["Exec/RunC04.vo"]
HEADER = """From Coq Require Import ZArith List String.
From ACV Require Import Model.Bytes Model.Transcript Exec.RunC04.
Import ListNotations. Open Scope Z_scope."""

TRUSTED_BASE = [
    "Coq 8.16.1 kernel; Print Assumptions of every C04 theorem: closed under the global context",
    "hand-written model coq/Model/Transcript.v of the verifier-side transcript (src/presentation/schema.rs:44-56, src/statement/*.rs, src/issuer.rs:330-349, src/credential/schema.rs:81-127) as the sequence of append_message payloads",
    "merlin: the transcript state is an injective function of the sequence of (label, payload) frames, and its challenge a collision-resistant hash of it (idealised); labels are constants fixed by position",
    "point / key encodings (to_bytes, to_compressed) are opaque injective byte strings",
    "correspondence: harness/src/ops_create.rs (action ctx): every single-field mutation of nonce and schema -> Presentation::verify must fail; the transcript digest computed with the library's own PresentationSchema::add_challenge_contribution changes iff the model's payload sequence changes; lib/c04.py",
]
ASSUMPTIONS = ["claim types and validators of the issuer's credential schema are not hashed (not in the property's list)",
               "a missing credential-schema label / description hashes like the empty string"]


def hb(h):
    if h == "":
        return "(@nil Z)"
    return "[" + ";".join(str(b) for b in bytes.fromhex(h)) + "]"


def oz(x):
    return "None" if x is None else f"(Some {C.cz(x)})"


def coq_stmt(m):
    k = m["k"]
    if k == "sig":
        i = m["issuer"]
        cs = i["schema"]
        sch = f"(mkCSch {hb(cs['id'])} {hb(cs['label'])} {hb(cs['desc'])} [{';'.join(hb(x) for x in cs['blind'])}] [{';'.join(hb(x) for x in cs['indices'])}] {cs['nclaims']})"
        ip = f"(mkIP {hb(i['id'])} {hb(i['vk'])} {hb(i['rvk'])} {hb(i['reg'])} {hb(i['ek'])} {sch})"
        return f"TSig {hb(m['id'])} [{';'.join(hb(x) for x in m['disclosed'])}] {ip}"
    if k in ("rev", "mem"):
        return f"{'TRev' if k == 'rev' else 'TMem'} {hb(m['id'])} {hb(m['ref'])} {m['claim']} {hb(m['vk'])} {hb(m['acc'])}"
    if k == "eq":
        return f"TEq {hb(m['id'])} [{';'.join('(' + hb(r[0]) + ',' + str(r[1]) + ')' for r in m['refs'])}]"
    if k == "comm":
        return f"TComm {hb(m['id'])} {hb(m['ref'])} {m['claim']} {hb(m['gm'])} {hb(m['gb'])}"
    if k == "range":
        return f"TRange {hb(m['id'])} {hb(m['ref'])} {hb(m['sig'])} {m['claim']} {oz(m['lo'])} {oz(m['hi'])}"
    if k == "venc":
        return f"TVenc {hb(m['id'])} {C.cbool(m['dec'])} {hb(m['ref'])} {m['claim']} {hb(m['gm'])} {hb(m['ek'])}"
    return f"TVdec {hb(m['id'])} {hb(m['ref'])} {m['claim']} {hb(m['gm'])} {hb(m['ek'])}"


def coq_ctx(c):
    st = "[" + "; ".join(f"({hb(k)}, {coq_stmt(m)})" for k, m in c["schema"]["stmts"]) + "]"
    return f"({hb(c['nonce'])}, mkTS {hb(c['schema']['id'])} {st})"


def explore(ctx):
    tier, seed = ctx["tier"], ctx["seed"]
    rng = random.Random(seed)
    n = 160 if tier == "thorough" else 32
    cs = []
    for i in range(n):
        s = CC.gen(rng, "ps" if i % 2 else "bbs", kinds=["rev", "mem", "eq", "comm", "range", "venc"])
        s["action"] = {"k": "ctx"}
        if s["nonce"] == "" and i % 3:
            s["nonce"] = "%032x" % rng.getrandbits(128)
        if i % 4 == 1:
            s["schema_id"] = rng.choice(["5ca1ab1e", "DEADbeef00", "6b79632d32303234"])     # identifiers that are also hex strings
        cs.append(s)
    # fixed shapes: two credentials whose claim 1 is tied by an equality statement, with a predicate on that very claim
    # (a reference retargeted to the other credential then meets the same response: only the transcript tells them apart)
    for suite in ("bbs", "ps"):
        for pk in ("comm", "venc", "rev1"):
            creds = [{"claims": [{"t": "r", "s": f"id-{ci}"}, CC.claim(rng, "h", "Alice"), CC.claim(rng, "n", 41 + ci)]} for ci in range(2)]
            stmts = [{"k": "sig", "id": "s0", "cred": 0, "disclosed": []}, {"k": "sig", "id": "s1", "cred": 1, "disclosed": []},
                     {"k": "eq", "id": "e0", "refs": [["s0", 1], ["s1", 1]]}]
            if pk == "comm":
                stmts.append({"k": "comm", "id": "c0", "ref": "s0", "claim": 1, "gens": "hash"})
            elif pk == "venc":
                stmts.append({"k": "venc", "id": "v0", "ref": "s0", "claim": 1, "dec": suite == "ps", "gen": "std"})
            else:
                stmts.append({"k": "rev", "id": "r0", "ref": "s0", "claim": 0})
            cs.append({"op": "f_create", "suite": suite, "seed": rng.randrange(1 << 30), "nonce": "0a0b", "creds": creds, "stmts": stmts, "action": {"k": "ctx"}})
    if ctx.get("replay"):
        rp = json.load(open(ctx["replay"]))
        if rp.get("case", {}).get("scenario"):
            cs = [rp["case"]["scenario"]]
    impl = C.run_exec_parallel(cs, nproc=16, timeout=7200)
    terms, refs = [], []
    failures, samples = [], []
    hist = {"fields": {}, "verify_after_mutation": {}}
    for s, r in zip(cs, impl):
        if r.get("r") != "ok" or r.get("create") != "ok" or r.get("verify") != "ok" or "ctx" not in r:
            failures.append({"class": None, "witness": False, "text": f"honest baseline failed: {json.dumps(r)[:300]}", "case": {"scenario": s}})
            continue
        terms.append(coq_ctx(r["orig"]))
        refs.append((s, None, r))
        for m in r["ctx"]:
            terms.append(coq_ctx(m["model"]))
            refs.append((s, m, r))
    model = C.run_model("C04", HEADER, terms, shard_size=60, timeout=3000)
    orig_fp = {}
    distinct = set()
    for (s, m, r), fp in zip(refs, model):
        if m is None:
            orig_fp[id(r)] = fp
            continue
        field = m["name"].split(":")[-1] if ":" in m["name"] else m["name"]
        kind = m["name"].split("[")[0] if "[" in m["name"] else "ctx"
        key = f"{kind}:{field}"
        hist["fields"][key] = hist["fields"].get(key, 0) + 1
        hist["verify_after_mutation"][m["verify"]] = hist["verify_after_mutation"].get(m["verify"], 0) + 1
        distinct.add(C.case_hash([s["suite"], s["stmts"], m["name"]]))
        model_same = (fp == orig_fp[id(r)])
        case = {"scenario": s, "mutation": m["name"], "verify": m["verify"], "digest_same": m["digest_same"], "model_same": model_same}
        if len(samples) < 8 and rng.random() < 0.01:
            samples.append({"mutation": m["name"], "verify": m["verify"], "digest_same": m["digest_same"], "suite": s["suite"], "stmts": s["stmts"]})
        if m["verify"] == "ok":
            failures.append({"class": None, "witness": True,
                             "text": f"presentation is ACCEPTED under a changed context: {m['name']} (suite {s['suite']}); digest_same={m['digest_same']} model_same={model_same}", "case": case})
        elif model_same:
            failures.append({"class": None, "witness": False, "text": f"model transcript unchanged by mutation {m['name']} (model does not cover this field)", "case": case})
        elif m["digest_same"] != model_same:
            failures.append({"class": None, "witness": False,
                             "text": f"transcript correspondence broken: mutation {m['name']} changes the model's payload sequence but not the library's transcript digest (field no longer absorbed?); verify={m['verify']}", "case": case})
    return {
        "evaluations": len(terms),
        "distinct_nontrivial": len(distinct),
        "rule": "cases = honestly created presentations over generated schemas (all statement kinds, 1..3 credentials, BBS/PS) x every single change of a verifier-side parameter (nonce bit flip / truncation / extension, schema id incl. other spellings of the same text (case swapped, hex spelling, hex-decoded, trailing space; also for issuer and credential-schema ids), statement order, and per statement: issuer id, signing key, revocation key, registry value, encryption key, credential-schema id / label / description / blindable list / same-length claim-label rename / claim count, requested disclosures, reference ids (retargeted to another signature statement), claim index, registry and keys, generators, range bounds and their presence, decryption flag, equality references); each must make Presentation::verify fail, and the library's transcript digest must change exactly when the Coq payload sequence changes; distinct by (suite, statements, mutation)",
        "samples": samples or [{"mutation": "none"}],
        "histograms": hist,
        "failures": failures,
        "exhaustive": False,
    }
