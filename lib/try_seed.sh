#!/bin/bash
# try_seed.sh <seed-name> <check-id>...   applies the seeded patch to /repo, runs the checks, reverts.
NAME=$1; shift
cd /repo && git apply /verif/seeded/$NAME/patch.diff || exit 3
for P in "$@"; do
  (cd /verif && ./check $P --tier quick 2>&1 | grep -E "^(VIOLATION|OK|KNOWN|INFRA)" | cut -c1-300)
done
cd /repo && git checkout -- src
