#!/bin/bash
# try_seed.sh <seed-name> <check-id>...   applies the seeded patch to /repo, runs the checks, reverts.
# Evidence files are saved and restored: evidence committed in /verif must come from the unchanged tree.
NAME=$1; shift
mkdir -p /verif/.cache/evsave && cp /verif/evidence/*.json /verif/.cache/evsave/ 2>/dev/null
cd /repo && git apply /verif/seeded/$NAME/patch.diff || { echo "PATCH-DOES-NOT-APPLY $NAME"; exit 3; }
for P in "$@"; do
  (cd /verif && ./check $P --tier quick 2>&1 | grep -E "^(VIOLATION|OK|KNOWN|INFRA)" | cut -c1-300)
done
cd /repo && git checkout -- src
cp /verif/.cache/evsave/*.json /verif/evidence/ 2>/dev/null
