#!/usr/bin/env python3
"""Prints the prompt for a mutation sub-agent: property text + scratch worktree path only."""
import json, sys
pid, wt = sys.argv[1], sys.argv[2]
variant = sys.argv[3] if len(sys.argv) > 3 else ""
for l in open('/verif/properties.jsonl'):
    p = json.loads(l)
    if p['id'] == pid:
        break
anch = p['anchors']
mech = "\n".join(f"  - {m['name']} ({m['where']})" for m in anch.get('mechanism', []))
print(f"""You are helping to evaluate a verification tool by seeding a realistic bug into a Rust library.

The library is hyperledger/anoncreds-v2-rs (crate `credx`). You have your own scratch git worktree of it at {wt}
(work ONLY there; never touch /repo or /verif; do not read anything under /verif). The sandbox has no network;
build with `cd {wt} && CARGO_NET_OFFLINE=true cargo build --offline` and run the existing test suite with
`cd {wt} && CARGO_NET_OFFLINE=true cargo test --offline` (all 55 tests pass on the unmodified tree; the suite rewrites three files under samples/ — ignore those).
Use a separate target dir inside the worktree (the default `{wt}/target`) so nothing is shared.

The semantic property under study:

  id: {p['id']}
  title: {p['title']}
  statement: {p['statement']}
  quantified over: {p['quantifier']['text']}
  why the existing tests cannot settle it: {p['why_tests_cant']}
  relevant files: {', '.join(anch['files'])}
  mechanisms:
{mech}

Your task: write ONE small, realistic source change to the library (the kind of slip a maintainer could make in a refactor or
"optimisation": an off-by-one, a dropped check, a swapped argument, a wrong constant, a reordered step, a missing term, ...)
that BREAKS this property while the crate still compiles and the existing test suite still passes unchanged (do not edit tests).
{variant}
Prefer a change that needs something specific to manifest — an unusual input, a boundary value, a multi-step sequence of
operations, a deviating (malicious) counter-party, or two cooperating sites that each look fine alone — not one that any ordinary
use would expose at once. Never use `git stash` (the stash stack is shared by all worktrees of this repository and other people are working in sibling worktrees): to compare with and without your change use `git diff -- src > /tmp/mychange-$$.diff; git checkout -- src; ...; git apply /tmp/mychange-$$.diff`. Do not add obviously artificial code (no `if x == 12345` backdoors); the change should look like a plausible mistake.

Then write a demonstration: a new integration test file `{wt}/tests/seeded_demo.rs` (or a small example program) that FAILS with your
change applied and PASSES on the unmodified tree, exercising only the crate's public API (use serde_json to reach non-public fields if needed).
Verify both directions yourself (`git diff -- src > /tmp/<your-own-name>.diff; git checkout -- src; ...; git apply /tmp/<your-own-name>.diff`).

Deliver, inside the worktree:
  - {wt}/seeded/patch.diff      : `git diff -- src` of your change (source only, not the demo)
  - {wt}/seeded/demo.rs         : a copy of the demonstration test
  - {wt}/seeded/NOTES.md        : what the change is, why it breaks the property, what is needed for it to manifest, and the exact
                                   commands you ran with their outcomes (suite passes with the change: yes/no; demo fails with / passes without)
Leave the worktree with the change APPLIED and the demo test present. In your final message, summarise the change in 3-6 lines.""")
