#!/bin/bash
# lane.sh <k> <seed> <Cxx>...  — runs the quick checks against a PRIVATE copy of /repo (a git worktree under
# /tmp/lane<k>) with the seeded patch applied, from a private copy of /verif whose harness depends on that copy.
# /repo and /verif themselves are not touched, so several lanes (and ordinary checks) can run at the same time.
K=$1; SEED=$2; shift 2
L=/tmp/lane$K
HEAD=$(git -C /repo rev-parse HEAD)
if [ ! -d $L/repo ]; then git -C /repo worktree add -q --detach $L/repo $HEAD || exit 4; fi
git -C $L/repo checkout -q -- . ; git -C $L/repo checkout -q --detach $HEAD
mkdir -p $L/verif
rsync -a --delete --exclude .git --exclude replays --exclude evidence /verif/ $L/verif/
mkdir -p $L/verif/evidence
sed -i "s#path = \"/repo\"#path = \"$L/repo\"#" $L/verif/harness/Cargo.toml
(cd $L/repo && git apply /verif/seeded/$SEED/patch.diff) || { echo "$SEED :: PATCH-DOES-NOT-APPLY"; exit 3; }
for P in "$@"; do
  R=$(cd $L/verif && ./check $P --tier quick 2>&1 | grep -E "^(VIOLATION|OK|INFRA)" | head -1 | sed "s#$L##" | cut -c1-160)
  echo "$SEED $P :: $R"
done
(cd $L/repo && git checkout -q -- .)
