"""C10 — verifiable encryption: whatever verifies decrypts to the signed claim."""
import json, random
import common as C
import create_common as CC
import pres_common as PC
import pres_check as K

EXTRA_VO = PC.EXTRA_VO
TRUSTED_BASE = K.TRUSTED_COMMON + [
    "encryption sub-protocol modelled in coq/Model/Pres.v (SVenc / PVenc: hashed items c1, c2, r1, r2; a statement requesting scalar decryption needs the decryptable part) and coq/Model/Preds.v (honest prover, ElGamal in the exponent); the byte decomposition (32 byte ciphertexts, per-byte Schnorr proofs, 8-bit bulletproofs, weighted sum) is NOT modelled in Coq and is exercised on the implementation only",
    "the encrypt-and-decrypt proof (AES-GCM part, its own copy of the message generator) has a hand-written holder (harness/src/ops_vdec.rs, adapted from the demonstration of seed C10-f; repeats the transcript labels of create.rs and the proof builder) with four variants; not modelled in Coq",
    "decryption: theorem C10_decrypt_group (c2 - dk*c1 = gm*m for the extracted (m, k)); scalar / claim decryption (decrypt_scalar, decrypt_and_verify) checked on the implementation for every claim type and value class",
]
ASSUMPTIONS = ["bulletproofs-bls soundness (each byte ciphertext opens to a value in 0..255), AES-GCM, no known discrete-log relation between message generator and encryption key",
               "known finding: decrypt_scalar searches on the standard generator, so it fails when the statement's message generator is another point"]

R = 0x73eda753299d7d483339d80809a1d80553bda402fffe5bfeffffffff00000001
SPECIAL = [0, 1, 255, 256, R - 1, R - 2, 2**248, 2**255 % R, 0xff << 8, (1 << 64) - 1, 0xff, 0xff00ff]


def explore(ctx):
    tier, seed = ctx["tier"], ctx["seed"]
    rng = random.Random(seed)
    # (a) verifier model vs implementation with the external prover
    scns = []
    reps = 12 if tier == "thorough" else 3
    for _ in range(reps):
        for suite in ("bbs", "ps"):
            for nc, eq in ((1, False), (2, True)):
                s = PC.base_scenario(rng, suite, n_creds=nc, eq=eq, venc=False)
                scns.append(s)
                for d in ("venc_subst_shared", "venc_subst_independent", "omit_pred", "tamper_bp"):
                    s = PC.base_scenario(rng, suite, n_creds=nc, eq=eq, venc=False)
                    s["dev"] = {"k": d, "stmt": "v0"}
                    scns.append(s)
                s = PC.base_scenario(rng, suite, n_creds=nc, eq=eq, venc=True)
                s["dev"] = {"k": "venc_no_dec_part", "stmt": "v0"}
                scns.append(s)
    PC.MUST_REJECT["omit_pred"] = "C10"
    PC.MUST_REJECT["tamper_bp"] = "C10"
    res = PC.run("C10", scns)
    failures, hist, distinct = PC.judge("C10", res, {"C10"})
    # (b) decryption of honest presentations: every claim type / value class, standard and hashed generators
    n = 200 if tier == "thorough" else 32
    cs = []
    for i in range(n):
        suite = "ps" if i % 2 else "bbs"
        claims = [{"t": "r", "s": f"id-{i}"}, CC.claim(rng, "h"), CC.claim(rng, "n"), CC.claim(rng, "s", SPECIAL[i % len(SPECIAL)]),
                  CC.claim(rng, "n", [255, -1, 0, 2**63 - 1, -2**63, 65535][i % 6]), CC.claim(rng, "e")]
        if i % 4 == 0:
            claims[1] = CC.claim(rng, "h", "")          # an empty value: the shortest symmetric payload
        stmts = [{"k": "sig", "id": "s0", "cred": 0, "disclosed": []}]
        for j in range(len(claims)):
            if (i + j) % 3 == 0:
                stmts.append({"k": "venc", "id": f"v{j}", "ref": "s0", "claim": j, "dec": True, "gen": "std" if (i + j) % 2 else "hash"})
            elif (i + j) % 3 == 1:
                stmts.append({"k": "venc", "id": f"v{j}", "ref": "s0", "claim": j, "dec": False, "gen": "hash" if (i + j) % 2 else "std"})
        stmts.append({"k": "vdec", "id": "d0", "ref": "s0", "claim": 1 if i % 4 == 0 else 1 + (i % 5), "gen": "std" if i % 8 else "hash"})
        cs.append({"op": "f_create", "suite": suite, "seed": i, "nonce": "aa", "creds": [{"claims": claims}], "stmts": stmts, "action": {"k": "decrypt"}})
    if ctx.get("replay"):
        rp = json.load(open(ctx["replay"]))
        if rp.get("case", {}).get("op") == "f_create":
            cs = [rp["case"]]
    impl = C.run_exec_parallel(cs, nproc=16, timeout=7200)
    hist["decrypt"] = {}
    d2 = set()
    pseud = {}
    for s, r in zip(cs, impl):
        if r.get("create") != "ok" or r.get("verify") != "ok" or "decrypt" not in r:
            failures.append({"class": None, "witness": True, "text": f"honest presentation with encryption statements not created / accepted: {json.dumps(r)[:300]}", "case": s})
            continue
        for d in r["decrypt"]:
            if d["kind"] == "venc":
                t = s["creds"][0]["claims"][d["claim"]]["t"]
                key = f"venc gen_std={d['gen_is_std']} flag={d['flag']} group_ok={d['group_ok']} scalar={d['scalar']}"
                hist["decrypt"][key] = hist["decrypt"].get(key, 0) + 1
                d2.add(C.case_hash([s["suite"], t, d["gen_is_std"], d["flag"], s["creds"][0]["claims"][d["claim"]]]))
                case = dict(s)
                case["decrypt"] = d
                if not d["group_ok"]:
                    failures.append({"class": None, "witness": True, "text": f"decrypt() of an accepted honest proof is not message_generator * signed claim ({t}, {s['suite']})", "case": case})
                if d["flag"] and not d["has_part"]:
                    failures.append({"class": None, "witness": True, "text": "honest prover omitted the requested decryptable part", "case": case})
                if d["flag"] and d["scalar"] != "signed":
                    cls = "decrypt-scalar-nonstandard-generator" if (not d["gen_is_std"] and d["scalar"] == "none") else None
                    failures.append({"class": cls, "witness": True,
                                     "text": f"decrypt_scalar of an accepted honest proof returns '{d['scalar']}' instead of the signed scalar (claim type {t}, generator {'standard' if d['gen_is_std'] else 'hashed'}, {s['suite']})", "case": case})
                pseud.setdefault((s["seed"], d["claim"], d["gen"]), set()).add(d["pseudonym"])
            else:
                key = f"vdec gen_std={d['gen_is_std']} result={d['result']}"
                hist["decrypt"][key] = hist["decrypt"].get(key, 0) + 1
                if d["result"] != "signed":
                    case = dict(s)
                    case["decrypt"] = d
                    failures.append({"class": None, "witness": True, "text": f"decrypt_and_verify of an accepted honest proof returns '{d['result']}' instead of the signed claim ({s['suite']})", "case": case})
    # (c) a hand-written holder for the byte decomposition of scalar decryption (harness/src/ops_venc.rs):
    #     honest; bytes of another value (byte randomness a decomposition of the ciphertext randomness, or
    #     unrelated); the integer m + r.  Whatever is accepted must decrypt to the signed scalar.
    vb = []
    R_ = R
    vals = [("n", 8018881111, 1), ("n", -1, 0), ("n", 0, 255), ("s", 0xabcd, 0xff), ("s", R_ - 1, 1), ("s", 2**255 % R_, 7), ("n", 2**63 - 1, -2**63)]
    for i, (t, v, o) in enumerate(vals if tier == "thorough" else vals[: 4]):
        mk = lambda t, x: {"t": "n", "v": str(x)} if t == "n" else {"t": "s", "hex": "%064x" % x}
        for suite in ("bbs", "ps"):
            vb.append({"op": "f_vencbytes", "suite": suite, "claim": mk(t, v), "other": mk(t, o)})
    vres = C.run_exec_parallel(vb, nproc=16) if len(vb) >= 64 else [C.run_exec([o])[0] for o in vb]
    hist["byte_decomposition"] = {}
    for s_, r in zip(vb, vres):
        if r.get("r") != "ok":
            failures.append({"class": None, "witness": False, "text": f"harness failure {json.dumps(r)[:200]}", "case": s_})
            continue
        for variant, x in r["variants"].items():
            key = f"{variant}: verify={x.get('verify')} scalar={x.get('scalar')}"
            hist["byte_decomposition"][key] = hist["byte_decomposition"].get(key, 0) + 1
            case = dict(s_, variant=variant, result=x)
            if x.get("verify") == "panic":
                failures.append({"class": None, "witness": True, "text": f"panic on the {variant} byte decomposition", "case": case})
            elif variant == "claim":
                if x.get("verify") != "ok" or x.get("scalar") != "signed":
                    failures.append({"class": None, "witness": False,
                                     "text": f"calibration: the hand-written holder following the protocol is not accepted / does not decrypt ({x}); holder and library have drifted apart", "case": case})
            elif x.get("verify") == "ok" and (x.get("scalar") != "signed" or not x.get("group_ok")):
                failures.append({"class": None, "witness": True,
                                 "text": f"accepted although scalar decryption does not give the signed claim: byte decomposition '{variant}' ({s_['suite']}), decrypt_scalar -> {x.get('scalar')}", "case": case})
    # (d) a hand-written holder for the encrypt-and-decrypt proof (harness/src/ops_vdec.rs): honest; the text of another claim
    #     in the symmetric part; the same with a generator scaled so that H' * m' = H * m carried in the proof, hashed or not.
    #     Any claim that decryption of an accepted presentation returns must be the signed one.
    vd = []
    pairs = [({"t": "h", "hex": b"John Doe".hex(), "pf": True}, {"t": "h", "hex": b"Mallory Roe".hex(), "pf": True}),
             ({"t": "n", "v": "41"}, {"t": "n", "v": "17"}),
             ({"t": "h", "hex": b"".hex(), "pf": True}, {"t": "h", "hex": b"x".hex(), "pf": True}),
             ({"t": "n", "v": str(-2 ** 63 + 1)}, {"t": "n", "v": str(2 ** 63 - 1)})]
    for k_, (cl, ot) in enumerate(pairs if tier == "thorough" else pairs[:2]):
        for suite in ("bbs", "ps"):
            for gen in ("std", "hash"):
                vd.append({"op": "f_vdec", "suite": suite, "gen": gen, "claim": 1, "claims": [{"t": "r", "s": "id-1"}, cl, {"t": "n", "v": "5"}], "other": ot})
    dres = C.run_exec_parallel(vd, nproc=16) if len(vd) >= 64 else [C.run_exec([o])[0] for o in vd]
    hist["encrypt_and_decrypt_holder"] = {}
    for s_, r in zip(vd, dres):
        if r.get("r") != "ok":
            failures.append({"class": None, "witness": False, "text": f"harness failure {json.dumps(r)[:200]}", "case": s_})
            continue
        for variant, x in r["variants"].items():
            key = f"{variant}: verify={x.get('verify')} decrypt={x.get('decrypt')}"
            hist["encrypt_and_decrypt_holder"][key] = hist["encrypt_and_decrypt_holder"].get(key, 0) + 1
            case = dict(s_, variant=variant, result=x)
            if x.get("verify") == "panic":
                failures.append({"class": None, "witness": True, "text": f"panic on the {variant} encrypt-and-decrypt holder", "case": case})
            elif variant == "honest":
                if x.get("verify") != "ok" or x.get("decrypt") != "signed":
                    failures.append({"class": None, "witness": False,
                                     "text": f"calibration: the hand-written encrypt-and-decrypt holder following the protocol is not accepted / does not decrypt ({x}); holder and library have drifted apart", "case": case})
            elif x.get("verify") == "ok" and x.get("decrypt") == "other":
                failures.append({"class": None, "witness": True,
                                 "text": f"an accepted presentation decrypts (decrypt_and_verify) to a claim that was not signed: holder variant '{variant}' ({s_['suite']}, generator {s_['gen']})", "case": case})
    failures += C.domain_generator_pin()
    return {
        "evaluations": len(res) + sum(len(r.get("decrypt", [])) for r in impl) + 4 * len(vb) + 4 * len(vd),
        "distinct_nontrivial": distinct + len(d2),
        "rule": "cases = (a) external prover with an encryption statement (honest; substitute plaintext with shared / independent nonce; proof omitted; blinder response altered; decryptable part omitted although the statement requests scalar decryption) evaluated by the Coq verifier model and Presentation::verify; (b) Presentation::create with encryption statements (scalar decryption requested or not, standard and hashed generators) and encrypt-and-decrypt statements on claims of every type incl. scalars 0, 1, 255, 256, r-1, r-2, 2^248 and numbers MIN / -1 / 0 / MAX: decrypt() = generator * signed scalar, decrypt_scalar = signed scalar, decrypt_and_verify = signed claim; (c) / (d) hand-written holders for the byte decomposition and for the encrypt-and-decrypt proof (honest calibration variant; other bytes / other text; scaled generator carried in the proof); distinct by (suite, claim, generator, flag)",
        "samples": [{"suite": x["scn"]["suite"], "stmts": x["scn"]["stmts"], "dev": x["scn"]["dev"], "impl": x["impl"], "model": x["model"]} for x in res[:60:13]],
        "histograms": hist,
        "failures": failures,
        "exhaustive": False,
    }
