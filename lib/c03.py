"""C03 — completeness: honest presentations of true statements are always accepted."""
import json, random
import common as C
import create_common as CC
import pres_common as PC
import pres_check as K

EXTRA_VO = PC.EXTRA_VO
TRUSTED_BASE = K.TRUSTED_COMMON + [
    "per-statement completeness theorems (BBS/PS proofs of knowledge for every partition, commitment sub-protocol, index->slot alignment) are composed by the verifier model's fold over the schema; revocation / membership / range / verifiable-encryption sub-protocols are not modelled in Coq and are covered by running Presentation::create -> verify on the implementation",
    "correspondence: (a) the external honest prover (harness/src/ops_adv.rs) against both the Coq verifier model and Presentation::verify; (b) Presentation::create over generated well-formed schemas with every statement kind -> verify, also after BARE / CBOR / JSON round trips (harness/src/ops_create.rs)",
]
ASSUMPTIONS = ["well-formed schemas: references resolve, indices in range, predicate statements reference undisclosed claims, range statements reference a commitment on the same number claim",
               "bulletproofs-bls completeness; AES-GCM; hash-to-curve"]


def explore(ctx):
    tier, seed = ctx["tier"], ctx["seed"]
    rng = random.Random(seed)
    # (a) model-level: honest shadow prover
    shapes = [dict(n_creds=1), dict(n_creds=1, comm=True), dict(n_creds=2, eq=True), dict(n_creds=2, eq=True, comm=True),
              dict(n_creds=3, eq=True, comm=True), dict(n_creds=2), dict(n_creds=1, comm=True, disclosed=[]),
              dict(n_creds=1, rev=True, n_claims=4), dict(n_creds=2, rev=True, eq=True, comm=True, one_issuer=True, n_claims=4), dict(n_creds=1, mem=True, n_claims=4)]
    scns = []
    reps = 20 if tier == "thorough" else 4
    for _ in range(reps):
        for suite in ("bbs", "ps"):
            for sh in shapes:
                scns.append(PC.base_scenario(rng, suite, **sh))
    res = PC.run("C03", scns)
    failures, hist, distinct = PC.judge("C03", res, {"C03"})
    # (b) implementation: Presentation::create on well-formed schemas with every statement kind
    n = 900 if tier == "thorough" else 110
    cs = []
    for i in range(n):
        heavy = (i % 12 == 0)
        kinds = ["rev", "mem", "eq", "comm", "range", "venc"] + (["vencdec", "vdec"] if heavy else [])
        sc = CC.gen(rng, "ps" if i % 2 else "bbs", kinds=kinds, heavy=heavy)
        if i % 3 == 1:
            sc["cred_order"] = "reverse" if i % 2 else "rotate"
        cs.append(sc)
    # every way of writing the same equalities, on every run: one statement, chains and stars in both member orders,
    # overlapping statements with shuffled members
    for k, shp in enumerate(["one", "chain", "star", "chain_rev", "star_last", "mixed", "mixed", "chain_rev"] * (4 if tier == "thorough" else 1)):
        for suite in ("bbs", "ps"):
            sc = CC.gen(rng, suite, n_creds=3 + k % 2, kinds=["eq", "comm", "rev"], eq_shape=shp)
            sc["cred_order"] = ["schema", "reverse", "rotate"][k % 3]      # the wallet's order need not be the schema's
            cs.append(sc)
    if ctx.get("replay"):
        rp = json.load(open(ctx["replay"]))
        if rp.get("case", {}).get("op") == "f_create":
            cs = [rp["case"]]
    impl = C.run_exec_parallel(cs, nproc=16, timeout=7200)
    kh = {}
    samples = []
    d2 = set()
    for s, r in zip(cs, impl):
        ks = sorted(CC.kinds_of(s))
        for k in ks:
            kh[k] = kh.get(k, 0) + 1
        d2.add(C.case_hash([s["suite"], s["stmts"], len(s["nonce"])]))
        case = dict(s)
        if r.get("r") != "ok" or r.get("world") != "ok":
            failures.append({"class": None, "witness": False, "text": f"harness failure: {json.dumps(r)[:300]}", "case": case})
            continue
        if len(samples) < 4:
            samples.append({"suite": s["suite"], "stmts": s["stmts"], "result": {k: r.get(k) for k in ("create", "verify", "bare", "cbor", "json")}})
        if r.get("create") != "ok":
            failures.append({"class": None, "witness": True, "text": f"honest holder cannot create a presentation for a well-formed schema of true statements {ks}: {r.get('msg', r.get('create'))}", "case": case})
            continue
        if r.get("verify") != "ok":
            failures.append({"class": None, "witness": True, "text": f"honest presentation ({s['suite']}, statements {ks}) is not accepted: {r.get('verify')}", "case": case})
            continue
        for fmt in ("bare", "cbor"):
            x = r.get(fmt)
            if not isinstance(x, dict) or x.get("verify") != "ok":
                failures.append({"class": None, "witness": True, "text": f"honest presentation is not accepted after a {fmt.upper()} round trip: {x} (statements {ks})", "case": case})
        x = r.get("json")
        if not isinstance(x, dict) or x.get("verify") != "ok":
            has_bp = any(k in ks for k in ("range", "vencdec", "vdec"))
            cls = "json-roundtrip-bulletproof" if (has_bp and x == "codec-err") else None
            failures.append({"class": cls, "witness": True, "text": f"honest presentation does not survive a JSON round trip: {x} (statements {ks})", "case": case})
        if r.get("schema_json") != "ok":
            failures.append({"class": None, "witness": True, "text": f"presentation is not accepted under the JSON round-tripped schema: {r.get('schema_json')}", "case": case})
    hist["create_kinds"] = kh
    return {
        "evaluations": len(res) + len(cs),
        "distinct_nontrivial": distinct + len(d2),
        "rule": "cases = (a) honest external prover on schemas of 1..3 credentials with random disclosure subsets, equality and commitment statements in random order, evaluated by the Coq verifier model and by Presentation::verify; (b) Presentation::create on generated well-formed schemas (1..3 credentials of 3..6 claims of every type, same or different issuers, every disclosure subset of the unreferenced claims, revocation / membership / equality / commitment / range with every bound pattern / verifiable encryption with and without scalar decryption / encrypt-and-decrypt, statements in random order, empty to 64-byte nonces) -> verify before and after BARE, CBOR and JSON round trips; BBS and PS; distinct by (suite, statements, nonce length)",
        "samples": samples,
        "histograms": hist,
        "failures": failures,
        "exhaustive": False,
    }
