"""C16 — blind issuance is correct, enforces issuer policy, and hides blinded claims."""
import itertools, json, random
import common as C
import pres_common as PC

EXTRA_VO = ["Exec/RunBlind.vo"]
HEADER = """From Coq Require Import ZArith List String.
From ACV Require Import Model.Field Model.Pres Model.Blind Exec.ZrBig Exec.RunBlind.
Import ListNotations. Open Scope Z_scope."""

TRUSTED_BASE = [
    "Coq 8.16.1 kernel; Print Assumptions of every C16 theorem: closed under the global context",
    "hand-written model coq/Model/Blind.v of src/knox/{bbs,ps}/scheme.rs (new_blind_signature_context, blind_sign), src/knox/{bbs,ps}/blind_signature_context.rs (verify), src/knox/{bbs,ps}/blind_signature.rs, src/issuer.rs:186-288 (label policy) in the exponent model, Fiat-Shamir symbolic",
    "correspondence: harness/src/ops_blind.rs — (a) the three steps through the public API for schemas whose blindable labels have every alphabetical/index ordering and every non-empty hidden subset, with tampered requests; (b) an external holder assembling contexts itself (unsorted order, altered nonce / commitment / challenge / responses, response vectors of every length, a component on an issuer-known generator behind an over-long response vector, non-blindable / overlapping / duplicate labels) compared with the Coq issuer-side model",
]
ASSUMPTIONS = ["hiding of BBS blind requests does not hold (finding bbs-blind-request-not-hiding); PS requests are perfectly hiding",
               "unforgeability / discrete log for the meaning of 'opens on the unknown generators only'"]

LABELSETS = [["zeta", "alpha", "mu", "beta"], ["a", "b", "c", "d"], ["id", "secret", "name", "age", "extra"], ["m", "z", "a"]]


def mk_claims(rng, n):
    out = [{"t": "r", "s": f"id-{rng.randrange(10**6)}"}]
    for i in range(1, n):
        t = rng.choice("hns")
        if t == "h":
            out.append({"t": "h", "hex": rng.choice([b"Alice", b"x", b""]).hex(), "pf": True})
        elif t == "n":
            out.append({"t": "n", "v": str(rng.randrange(-100, 100))})
        else:
            out.append({"t": "s", "hex": "%064x" % rng.randrange(1, 2**200)})
    return out


def explore(ctx):
    tier, seed = ctx["tier"], ctx["seed"]
    rng = random.Random(seed)
    api, ext = [], []
    for labels in LABELSETS:
        n = len(labels)
        # every non-empty subset of claims 1..n-1 as the hidden set (claim 0 is the revocation id, issuer-known)
        for r in range(1, n):
            for hid in itertools.combinations(range(1, n), r):
                for suite in ("bbs", "ps"):
                    base = {"op": "f_blind", "suite": suite, "seed": rng.randrange(1 << 30), "labels": labels, "claims": mk_claims(rng, n),
                            "blindable": list(hid), "hidden": list(hid), "mode": "api"}
                    api.append(dict(base, expect="ok"))
                    # every hidden claim encodes to the scalar zero (scalar 0, the smallest number): the commitment of a
                    # request without blinding factor is then the identity
                    zc = [dict(c) for c in base["claims"]]
                    for k2, h in enumerate(hid):
                        zc[h] = {"t": "s", "hex": "%064x" % 0} if k2 % 2 == 0 else {"t": "n", "v": str(-2 ** 63)}
                    api.append(dict(base, claims=zc, expect="ok", seed=rng.randrange(1 << 30), note="hidden claims encode to zero"))
                    if len(hid) >= 2:
                        # the schema lists its blindable labels in another order than the claims have
                        api.append(dict(base, blindable=list(reversed(hid)), expect="ok", seed=rng.randrange(1 << 30)))
                    if rng.random() < (1.0 if tier == "thorough" else 0.35):
                        for t in ("nonce", "commitment", "challenge", "response", "response_extra", "response_short"):
                            api.append(dict(base, tamper=t, expect="err", seed=rng.randrange(1 << 30)))
                        # labels the schema does not declare blindable
                        nb = dict(base, blindable=[x for x in hid[1:]], expect="err" if len(hid) >= 1 else "ok", seed=rng.randrange(1 << 30))
                        nb["expect_stage"] = "request-or-sign"
                        api.append(nb)
                    # external holder
                    for d in ("none", "unsorted", "resp_plus", "resp_extra", "resp_short", "challenge_plus", "nonce_plus", "commitment_plus", "known_component"):
                        if d == "unsorted" and len(hid) < 2:
                            continue
                        if rng.random() < (1.0 if tier == "thorough" else 0.4) or d in ("none", "known_component", "unsorted"):
                            ext.append(dict(base, mode="ext", dev=d, seed=rng.randrange(1 << 30)))
                    # policy deviations with an otherwise valid proof: exactly one of several requested labels is blindable
                    # (whichever position it has in the request), the others are not
                    if len(hid) >= 2:
                        for keep in hid:
                            ext.append(dict(base, mode="ext", dev="none", blindable=[keep], note=f"only label {keep} of the requested ones is blindable",
                                            seed=rng.randrange(1 << 30)))
                    if len(hid) < n - 1:
                        other = [i for i in range(1, n) if i not in hid][0]
                        ext.append(dict(base, mode="ext", dev="none", blindable=[], note="labels not blindable", seed=rng.randrange(1 << 30)))
                        ext.append(dict(base, mode="ext", dev="none", known_overlap=[hid[0]], note="label also supplied by the issuer", seed=rng.randrange(1 << 30)))
                        ext.append(dict(base, mode="ext", dev="none", known_drop=[other], note="an index covered by nobody", seed=rng.randrange(1 << 30)))
    if ctx.get("replay"):
        rp = json.load(open(ctx["replay"]))
        if rp.get("case", {}).get("op") == "f_blind":
            sc = rp["case"]
            api, ext = ([sc], []) if sc.get("mode") == "api" else ([], [sc])
    failures, samples = [], []
    hist = {"api": {}, "ext_impl": {}, "ext_model": {}, "order_differs": 0}
    distinct = set()
    impl = C.run_exec_parallel(api, nproc=16, timeout=3600) if api else []
    for s, r in zip(api, impl):
        labels = s["labels"]
        hid_labels = [labels[i] for i in s["hidden"]]
        if sorted(hid_labels) != [labels[i] for i in sorted(s["hidden"])]:
            hist["order_differs"] += 1
        key = f"{s.get('tamper', 'none')}:{r.get('request')}/{r.get('sign')}/{r.get('unblind')}"
        hist["api"][key] = hist["api"].get(key, 0) + 1
        distinct.add(C.case_hash([s["suite"], labels, s["hidden"], s["blindable"], s.get("tamper")]))
        case = dict(s)
        case = dict(s)
        if r.get("not_hiding"):
            failures.append({"class": "bbs-blind-request-not-hiding" if s["suite"] == "bbs" else None, "witness": True,
                             "text": f"blind request is not hiding ({s['suite']}): commitment == sum Y_i * m_i, a guess of the hidden values is testable from the request", "case": case})
        if s["expect"] == "ok":
            good = r.get("sign") == "ok" and r.get("unblind") == "ok" and r.get("sig_ok") and r.get("claims_ok") and r.get("handle_ok") and r.get("pres_ok")
            if not good:
                failures.append({"class": None, "witness": True, "text": f"honest blind issuance fails for hidden labels {hid_labels} of schema {labels} ({s['suite']}): {json.dumps(r)[:200]}", "case": case})
        else:
            if r.get("sign") == "ok":
                failures.append({"class": None, "witness": True, "text": f"issuer blind-signed a request that must be refused ({s.get('tamper', 'labels not blindable')}, {s['suite']})", "case": case})
            elif r.get("sign") == "err" and r.get("unchanged") is False:
                failures.append({"class": None, "witness": True, "text": "refused blind request changed the registry", "case": case})
        if "panic" in (r.get("request"), r.get("sign"), r.get("unblind")):
            failures.append({"class": None, "witness": True, "text": f"panic in blind issuance: {json.dumps(r)[:200]}", "case": case})
    impl = C.run_exec_parallel(ext, nproc=16, timeout=3600) if ext else []
    good = [(s, r) for s, r in zip(ext, impl) if "model" in r]
    for s, r in zip(ext, impl):
        if "model" not in r:
            failures.append({"class": None, "witness": False, "text": f"harness failure {json.dumps(r)[:200]}", "case": s})
    def term(m):
        nl = lambda l: "[" + ";".join(f"{int(x)}%nat" for x in l) + "]"
        zl = lambda l: "[" + ";".join(PC.hz(x) for x in l) + "]"
        return (f"mkB {'PS' if m['suite'] == 'ps' else 'BBS'} {zl(m['ys'])} {nl(m['known'])} {PC.hz(m['commitment'])} {PC.hz(m['challenge'])} {zl(m['proofs'])} "
                f"{PC.hz(m['t0'])} {C.cbool(m['derived'])} {m['n']}%nat {nl(m['blindable'])} {nl(m['req_labels'])} {nl(m['known_labels'])}")
    model = C.run_model("C16", HEADER, [term(r["model"]) for _, r in good], shard_size=max(10, len(good) // 32 + 1)) if good else []
    for (s, r), m in zip(good, model):
        hist["ext_impl"][f"{s['dev']}:{r['sign']}"] = hist["ext_impl"].get(f"{s['dev']}:{r['sign']}", 0) + 1
        hist["ext_model"][f"{s['dev']}:{m}"] = hist["ext_model"].get(f"{s['dev']}:{m}", 0) + 1
        distinct.add(C.case_hash([s["suite"], s["labels"], s["hidden"], s["dev"], s.get("note")]))
        case = dict(s)
        honest = s["dev"] == "none" and not s.get("note")
        if len(samples) < 6 and rng.random() < 0.02:
            samples.append({"suite": s["suite"], "labels": s["labels"], "hidden": s["hidden"], "dev": s["dev"], "note": s.get("note"), "impl": r["sign"], "model": m})
        if honest and r["sign"] != "ok":
            failures.append({"class": None, "witness": True, "text": f"well-formed request of the external holder refused ({s['suite']}, hidden {s['hidden']}): model {m}", "case": case})
        elif not honest and r["sign"] == "ok" and s["dev"] != "unsorted":
            failures.append({"class": None, "witness": True, "text": f"issuer blind-signed a deviating request: {s['dev']} {s.get('note', '')} ({s['suite']}); model {m}", "case": case})
        elif (r["sign"] == "ok") != (m == "accept"):
            failures.append({"class": None, "witness": False, "text": f"model/implementation correspondence broken: impl={r['sign']} model={m} dev={s['dev']} {s.get('note', '')}", "case": case})
        if r["sign"] != "ok" and r.get("unchanged") is False:
            failures.append({"class": None, "witness": True, "text": "refused blind request changed the registry", "case": case})
    return {
        "evaluations": len(api) + len(ext),
        "distinct_nontrivial": len(distinct),
        "rule": "cases = 4 schemas of 3..5 claims whose labels' alphabetical and index orders differ or agree x every non-empty hidden subset of the non-identifier claims x BBS/PS: (a) BlindCredentialRequest::new -> Issuer::blind_sign_credential -> to_unblinded -> Signature::verify / handle verify / presentation, honest and with the request's nonce / commitment / challenge / response altered, the response vector lengthened / shortened, labels not declared blindable; (b) external holder contexts (index order and reversed, altered values, lengths +-1, a component on an issuer-known generator behind an over-long vector, labels not blindable / overlapping the issuer's / leaving an index uncovered) vs the Coq issuer-side model; distinct by (suite, labels, hidden set, deviation)",
        "samples": samples or [{}],
        "histograms": hist,
        "failures": failures,
        "exhaustive": True,
        "exhaustive_note": "every non-empty hidden subset of the non-identifier claims for the 4 label sets (3..5 claims), both suites, honest flow; deviations sampled in the quick tier",
    }
