"""C18 — claim encodings: deterministic, collision-free, monotone, reversible."""
import random
import common as C

R = 0x73eda753299d7d483339d80809a1d80553bda402fffe5bfeffffffff00000001
MIN, MAX = -2**63, 2**63 - 1

HEADER = """From Coq Require Import ZArith List String.
From ACV Require Import Model.ClaimCodec Exec.RunC18.
Import ListNotations. Open Scope Z_scope. Open Scope string_scope."""

EXTRA_VO = ["Exec/RunC18.vo"]

TRUSTED_BASE = [
    "Coq 8.16.1 kernel (coqc, vm_compute for case evaluation); no axioms (Print Assumptions: closed)",
    "hand-written Gallina model coq/Model/{Ints,Bytes,ClaimCodec}.v of src/utils.rs, src/claim/*.rs",
    "correspondence: harness/src/ops_data.rs (thin executor of credx), lib/c18.py (generator, comparator)",
    "SHAKE-256/from_bytes_wide modelled as an oracle H_xof; the harness checks to_scalar == from_bytes_wide(SHAKE256(model pre-image))",
    "UTF-8 validity is a Section variable in theorems; Exec/Utf8.v is the executable instance used for evaluation only",
    "third-party: blstrs_plus Scalar (canonical from_be_bytes, from_be_hex), hex, serde_bare (enumeration text payload), Rust str/int parsing",
]
ASSUMPTIONS = [
    "collision-freeness of hashed/enumeration/revocation encodings = injectivity of the modelled pre-image (proved) composed with collision resistance of SHAKE-256 (assumed)",
    "blstrs_plus built in release mode (no debug_assert in from_be_hex)",
]


def cclaim(c):
    t = c["t"]
    if t == "hashed":
        return f"(CHashed {C.cbytes(c['v'])} {C.cbool(c['pf'])})"
    if t == "number":
        return f"(CNumber {C.cz(c['v'])})"
    if t == "scalar":
        return f"(CScalar {c['v']})"
    if t == "revocation":
        return f"(CRevocation {C.cbytes(c['v'])})"
    if t == "enumeration":
        return f"(CEnum {C.cbytes(c['dst'])} {c['v']} {c['total']})"
    raise ValueError(t)


def jclaim(c):
    """JSON handed to the harness."""
    t = c["t"]
    hx = lambda b: bytes(b).hex()
    if t == "hashed":
        return {"t": t, "v": hx(c["v"]), "pf": c["pf"]}
    if t == "number":
        return {"t": t, "v": str(c["v"])}
    if t == "scalar":
        return {"t": t, "v": "%064x" % c["v"]}
    if t == "revocation":
        return {"t": t, "v": hx(c["v"])}
    if t == "enumeration":
        return {"t": t, "dst": hx(c["dst"]), "v": c["v"], "total": str(c["total"])}


def show_claim_impl(j):
    """impl's claim JSON -> the model's show_claim format."""
    t = j["t"]
    if t == "hashed":
        return f"hashed {j['v']} {'1' if j['pf'] else '0'}"
    if t == "number":
        return f"number {j['v']}"
    if t == "scalar":
        return f"scalar {j['v']}"
    if t == "revocation":
        return f"revocation {j['v']}"
    if t == "enumeration":
        return f"enumeration {j['dst']} {j['v']} {j['total']}"


def claim_from_impl(j):
    t = j["t"]
    unhx = lambda s: list(bytes.fromhex(s))
    if t == "hashed":
        return {"t": t, "v": unhx(j["v"]), "pf": j["pf"]}
    if t == "number":
        return {"t": t, "v": int(j["v"])}
    if t == "scalar":
        return {"t": t, "v": int(j["v"], 16)}
    if t == "revocation":
        return {"t": t, "v": unhx(j["v"])}
    if t == "enumeration":
        return {"t": t, "dst": unhx(j["dst"]), "v": j["v"], "total": int(j["total"])}


def line_of(res, payload):
    """impl result -> the model's line format."""
    r = res["r"]
    if r == "ok":
        return "ok " + payload(res)
    return r  # err | panic | skip


CT = {"hashed": "THashed", "number": "TNumber", "scalar": "TScalar", "revocation": "TRevocation",
      "enumeration": "TEnumeration", "unknown": "TUnknown"}


def is_utf8(b):
    try:
        bytes(b).decode("utf-8")
        return True
    except UnicodeDecodeError:
        return False


def number_lattice(rng, tier):
    vals = set()
    for base in [MIN, -2**32, -2**31, -2**16, -256, -1, 0, 1, 255, 256, 2**16, 2**31, 2**32, MAX]:
        for d in (-2, -1, 0, 1, 2):
            v = base + d
            if MIN <= v <= MAX:
                vals.add(v)
    pats = range(65536) if tier == "thorough" else sorted(set(
        [0, 1, 0x7fff, 0x8000, 0xffff, 0x00ff, 0xff00] + [rng.randrange(65536) for _ in range(600)]))
    for p in pats:
        for lane in range(4):
            u = p << (16 * lane)
            vals.add(u - 2**64 if u >= 2**63 else u)
    for _ in range(2000 if tier == "thorough" else 300):
        vals.add(rng.randrange(MIN, MAX + 1))
        vals.add(rng.randrange(-2**rng.randrange(1, 63), 2**rng.randrange(1, 63)))
    return sorted(vals)


def byte_strings(rng, tier):
    out = []
    for n in range(0, 34):
        out.append([0] * n)
        out.append([0xff] * n)
        out.append([(i + 1) % 256 for i in range(n)])
        out.append([0x41 + (i % 26) for i in range(n)])
        out.append([0x7f] * n)
        for _ in range(4 if tier == "thorough" else 1):
            out.append([rng.randrange(256) for _ in range(n)])
            out.append([rng.choice([0, 1, 32, 33, 31, 0x73, 0x74, 0xff]) for _ in range(n)])
    # multi-byte UTF-8
    for s in ["é", "日本語", "a€b", "𝄞𝄞", "é" * 15, "é" * 16, "ab" + "€" * 9, "x" * 30 + "é"]:
        out.append(list(s.encode()))
    seen, res = set(), []
    for b in out:
        k = bytes(b)
        if k not in seen:
            seen.add(k)
            res.append(b)
    return res


def scalars(rng, tier):
    out = [0, 1, 2, R - 1, R - 2, 2**64 - 1, 2**64, 2**63, 2**63 - 1, 2**255 % R]
    for top in list(range(0, 0x74)):
        for second in ([0, 1, 31, 32, 33, 0xff] if tier == "thorough" else [rng.choice([0, 1, 31, 32, 33, 0xff])]):
            z = (top << 248) | (second << 240) | rng.getrandbits(240)
            if z < R:
                out.append(z)
    for _ in range(500 if tier == "thorough" else 60):
        out.append(rng.randrange(R))
    return sorted(set(out))


def claims(rng, tier, nums, bstrs):
    cs = []
    for b in bstrs:
        cs.append({"t": "hashed", "v": b, "pf": False})
        cs.append({"t": "hashed", "v": b, "pf": True})   # to_text panics when not UTF-8 (model agrees)
        if is_utf8(b):
            cs.append({"t": "revocation", "v": b})
    for n in range(0, 40):
        cs.append({"t": "revocation", "v": [0x30 + (i % 10) for i in range(n)]})
    for v in rng.sample(nums, min(len(nums), 1500 if tier == "thorough" else 250)) + [MIN, MAX, 0, -1, 1]:
        cs.append({"t": "number", "v": v})
    for s in scalars(rng, tier)[:: (1 if tier == "thorough" else 3)]:
        cs.append({"t": "scalar", "v": s})
    dsts = [[], [0x61], list(b"phone_number_type"), [0x62] * 127, [0x62] * 128, [0x63] * 255, [0x64] * 256,
            list("é".encode()) * 3, [0x65] * 300]
    totals = [0, 1, 2, 3, 255, 256, 257, 65535, 65536, 65537, 65536 + 3, 2**32, 2**64 - 1]
    for d in dsts:
        for t in totals:
            for v in ([0, 1, 2, 127, 128, 255] if tier == "thorough" else [rng.choice([0, 1, 2, 127, 128, 255]), 3]):
                cs.append({"t": "enumeration", "dst": d, "v": v, "total": t})
    return cs


def text_inputs(rng, tier, texts):
    """valid texts plus mutations (some also used by C20)."""
    out = []
    alphabet = list("ut8:hexnmsclrv0f-é+ ")
    for t in texts:
        out.append(t)
    for t in rng.sample(texts, min(len(texts), 600 if tier == "thorough" else 150)):
        s = bytes(t)
        for _ in range(3):
            m = bytearray(s)
            k = rng.randrange(6)
            if k == 0 and m:
                del m[rng.randrange(len(m))]
            elif k == 1:
                m.insert(rng.randrange(len(m) + 1), ord(rng.choice("0afg-+:xZ ")))
            elif k == 2 and m:
                m[rng.randrange(len(m))] = ord(rng.choice("0afg-+:xZ9"))
            elif k == 3:
                m = m[: rng.randrange(len(m) + 1)]
            elif k == 4:
                m = m + m[4:]
            else:
                m = bytearray("".join(rng.choice(alphabet) for _ in range(rng.randrange(0, 8))).encode())
            if is_utf8(m):
                out.append(list(m))
    for s in ["", "a", "ab", "abc", "abcd", "num:", "num:-", "num:+", "num:+5", "num:-0", "num:007",
              "num:9223372036854775807", "num:9223372036854775808", "num:-9223372036854775808",
              "num:-9223372036854775809", "num:1e3", "num: 1", "hex:", "hex:0", "hex:0g", "hex:AbCd", "scl:",
              "scl:zz", "scl:" + "0" * 63, "scl:" + "0" * 64, "scl:" + "f" * 64, "scl:" + "0" * 65, "scl:" + "0" * 63 + "g",
              "scl:" + "73eda753299d7d483339d80809a1d80553bda402fffe5bfeffffffff00000001",
              "scl:" + "73eda753299d7d483339d80809a1d80553bda402fffe5bfeffffffff00000000",
              "scl:" + "73EDA753299D7D483339D80809A1D80553BDA402FFFE5BFEFFFFFFFF00000000",
              "rev:", "rev:x", "ut8:", "ut8:é", "enm:", "enm:00", "enm:0000", "enm:000000000000000000", "enm:00000000000000000000",
              "enm:01", "enm:0161", "enm:ff", "enm:80", "enm:8000", "enm:ffffffffffffffffff01", "enm:ffffffffffffffffff02",
              "enm:02c328000000000000000000", "xyz:abc", "abcé", "abé", "aé:", "éé", "numé"]:
        out.append(list(s.encode()))
    seen, res = set(), []
    for b in out:
        k = bytes(b)
        if k not in seen:
            seen.add(k)
            res.append(b)
    return res


def explore(ctx):
    tier, seed = ctx["tier"], ctx["seed"]
    rng = random.Random(seed)
    hx = lambda b: bytes(b).hex()
    unhx = lambda s: list(bytes.fromhex(s))
    cases = []      # (kind, descr(json-able), op, coq term, payload fn)
    failures = []
    hist = {}

    def add(kind, descr, op, term, payload):
        cases.append((kind, descr, op, term, payload))
        hist[kind] = hist.get(kind, 0) + 1

    nums = number_lattice(rng, tier)
    bstrs = byte_strings(rng, tier)
    scs = scalars(rng, tier)
    cls = claims(rng, tier, nums, bstrs)

    # ---------- phase 1
    for v in nums:
        c = {"t": "number", "v": v}
        add("num_to_scalar", c, {"op": "d_to_scalar", "c": jclaim(c)}, f"KToScalar {cclaim(c)}", lambda r: r["s"])
    for s in scs:
        add("num_from_scalar", {"s": "%064x" % s}, {"op": "d_num_from_scalar", "s": "%064x" % s},
            f"KNumFromScalar {s}", lambda r: r["v"])
        add("decode_str", {"s": "%064x" % s}, {"op": "d_decode_str", "s": "%064x" % s}, f"KDecodeStr {s}", lambda r: r["b"])
        add("decode_bytes", {"s": "%064x" % s}, {"op": "d_decode_bytes", "s": "%064x" % s}, f"KDecodeBytes {s}", lambda r: r["b"])
    for b in bstrs:
        if is_utf8(b):
            add("encode_str", {"b": hx(b)}, {"op": "d_encode_str", "b": hx(b)}, f"KEncodeStr {C.cbytes(b)}", lambda r: r["s"])
        add("encode_bytes", {"b": hx(b)}, {"op": "d_encode_bytes", "b": hx(b)}, f"KEncodeBytes {C.cbytes(b)}", lambda r: r["s"])
    for c in cls:
        if c["t"] != "number":
            add("to_scalar", c, {"op": "d_to_scalar", "c": jclaim(c)}, f"KToScalar {cclaim(c)}", lambda r: r["s"])
        add("to_bytes", c, {"op": "d_to_bytes", "c": jclaim(c)}, f"KToBytes {cclaim(c)}", lambda r: r["b"])
        add("to_text", c, {"op": "d_to_text", "c": jclaim(c)}, f"KToText {cclaim(c)}", lambda r: r["b"])
    # from_bytes on arbitrary data for every type
    for b in bstrs[:: (1 if tier == "thorough" else 2)]:
        for t in CT:
            add("from_bytes", {"t": t, "b": hx(b)}, {"op": "d_from_bytes", "t": t, "b": hx(b)},
                f"KFromBytes {CT[t]} {C.cbytes(b)}", lambda r: show_claim_impl(r["c"]))
    for s in scs[::4]:
        b = list(s.to_bytes(32, "big"))
        add("from_bytes", {"t": "scalar", "b": hx(b)}, {"op": "d_from_bytes", "t": "scalar", "b": hx(b)},
            f"KFromBytes TScalar {C.cbytes(b)}", lambda r: show_claim_impl(r["c"]))
    b = list(R.to_bytes(32, "big"))
    add("from_bytes", {"t": "scalar", "b": hx(b)}, {"op": "d_from_bytes", "t": "scalar", "b": hx(b)},
        f"KFromBytes TScalar {C.cbytes(b)}", lambda r: show_claim_impl(r["c"]))

    impl1 = C.run_exec_parallel([c[2] for c in cases])

    # ---------- phase 2: round trips built from the implementation's own outputs
    n1 = len(cases)
    rt = []   # (kind, original, index of phase-2 case)
    texts = []
    for (kind, descr, op, term, payload), r in zip(cases[:n1], impl1):
        if r["r"] != "ok":
            continue
        if kind == "num_to_scalar":
            s = int(r["s"], 16)
            rt.append(("rt_number", descr, len(cases)))
            add("rt_num_from_scalar", {"s": r["s"]}, {"op": "d_num_from_scalar", "s": r["s"]}, f"KNumFromScalar {s}", lambda r: r["v"])
        elif kind == "encode_str":
            s = int(r["s"], 16)
            rt.append(("rt_str", descr, len(cases)))
            add("rt_decode_str", {"s": r["s"]}, {"op": "d_decode_str", "s": r["s"]}, f"KDecodeStr {s}", lambda r: r["b"])
        elif kind == "encode_bytes":
            s = int(r["s"], 16)
            rt.append(("rt_bytes", descr, len(cases)))
            add("rt_decode_bytes", {"s": r["s"]}, {"op": "d_decode_bytes", "s": r["s"]}, f"KDecodeBytes {s}", lambda r: r["b"])
        elif kind == "to_bytes":
            t = descr["t"]
            rt.append(("rt_claim_bytes", descr, len(cases)))
            add("rt_from_bytes", {"t": t, "b": r["b"]}, {"op": "d_from_bytes", "t": t, "b": r["b"]},
                f"KFromBytes {CT[t]} {C.cbytes(unhx(r['b']))}", lambda r: show_claim_impl(r["c"]))
        elif kind == "to_text":
            texts.append(unhx(r["b"]))
            rt.append(("rt_claim_text", descr, len(cases)))
            add("rt_from_text", {"b": r["b"]}, {"op": "d_from_text", "b": r["b"]},
                f"KFromText {C.cbytes(unhx(r['b']))}", lambda r: show_claim_impl(r["c"]))
    for t in text_inputs(rng, tier, texts):
        add("from_text", {"b": hx(t)}, {"op": "d_from_text", "b": hx(t)}, f"KFromText {C.cbytes(t)}",
            lambda r: show_claim_impl(r["c"]))
    impl2 = C.run_exec_parallel([c[2] for c in cases[n1:]])
    impl = impl1 + impl2

    # ---------- model
    model = C.run_model("C18", HEADER, [c[3] for c in cases], shard_size=600)

    # ---------- hashed pre-images: independent SHAKE of the model's pre-image
    pre_idx = [i for i, l in enumerate(model) if l.startswith("pre ")]
    shake = C.run_exec_parallel([{"op": "d_shake", "pre": model[i][4:]} for i in pre_idx]) if pre_idx else []
    for i, r in zip(pre_idx, shake):
        model[i] = "ok " + r["s"]

    # ---------- compare
    disagreements = []
    nontrivial = set()
    for i, ((kind, descr, op, term, payload), r, m) in enumerate(zip(cases, impl, model)):
        if r["r"] == "harness-error":
            raise C.Infra("harness error: " + str(r))
        il = line_of(r, payload)
        if il == "skip":
            continue
        if il != m:
            disagreements.append({"kind": kind, "input": descr, "impl": il, "model": m, "coq_term": term})
        if r["r"] == "ok":
            nontrivial.add(C.case_hash([kind, descr]))

    # ---------- property oracle on the implementation alone
    def fail(cls, text, case, witness=True):
        failures.append({"class": cls, "text": text, "case": case, "witness": witness})

    # (a) monotone + injective on the lattice
    nums_sc = [(d["v"], int(r["s"], 16)) for (k, d, *_), r in zip(cases[:n1], impl1) if k == "num_to_scalar" and r["r"] == "ok"]
    nums_sc.sort()
    for (a, sa), (b, sb) in zip(nums_sc, nums_sc[1:]):
        if not (sa < sb and sa < 2**64 and sb < 2**64):
            fail(None, f"integer encoding not strictly monotone: enc({a})={sa:x} enc({b})={sb:x}", {"a": a, "b": b})
    # (b) round trips
    for kind, orig, idx in rt:
        r = impl[idx]
        if kind == "rt_number":
            if r["r"] != "ok" or int(r["v"]) != orig["v"]:
                fail(None, f"number claim {orig['v']} decodes to {r}", {"kind": kind, "claim": orig, "impl": r})
        elif kind in ("rt_str", "rt_bytes"):
            if r["r"] != "ok" or r["b"] != orig["b"]:
                fail(None, f"{kind}: packed {orig['b']} unpacks to {r}", {"kind": kind, "input": orig, "impl": r})
        elif kind in ("rt_claim_bytes", "rt_claim_text"):
            back = claim_from_impl(r["c"]) if r["r"] == "ok" else None
            if back != orig:
                cls = None
                if kind == "rt_claim_bytes":
                    if orig["t"] == "hashed" and orig["pf"] and back == dict(orig, pf=False):
                        cls = "bytes-codec-hashed-print-friendly-flag-lost"
                    elif orig["t"] == "revocation" and len(orig["v"]) != 16 and r["r"] == "err":
                        cls = "bytes-codec-revocation-length-not-16"
                    elif orig["t"] == "enumeration" and r["r"] == "err":
                        cls = "bytes-codec-enumeration-unsupported"
                fail(cls, f"{kind}: claim {jclaim(orig)} decodes to {r}", {"kind": kind, "claim": jclaim(orig), "impl": r})
    # (c) collision-freeness within each type on the sampled claims
    by = {}
    for (k, d, *_), r in zip(cases[:n1], impl1):
        if k in ("to_scalar", "num_to_scalar") and r["r"] == "ok":
            key = (d["t"], r["s"])
            val = dict(d)
            if d["t"] == "hashed":
                val = {"t": "hashed", "v": d["v"]}   # the flag is presentation only
            prev = by.get(key)
            if prev is not None and prev != val:
                cls = None
                if d["t"] == "enumeration":
                    same = prev["dst"] == val["dst"] and prev["v"] == val["v"]
                    if same and prev["total"] % 65536 == val["total"] % 65536:
                        cls = "enum-total-values-truncated-to-u16"
                    elif prev["v"] == val["v"] and prev["total"] % 65536 == val["total"] % 65536 and \
                            (len(prev["dst"]) > 255 or len(val["dst"]) > 255):
                        cls = "outside-quantifier"
                if cls != "outside-quantifier":
                    fail(cls, f"two different {d['t']} claims encode to the same scalar {r['s']}",
                         {"a": jclaim(prev) if "pf" in prev or prev["t"] != "hashed" else prev, "b": jclaim(d)})
            else:
                by[key] = val
    # correspondence failures: a disagreement that a property failure above explains is the witness;
    # otherwise it is reported without a failing input
    if disagreements:
        witnessed = any(f["class"] is None for f in failures)
        for d in disagreements[:20]:
            failures.append({"class": None, "witness": False,
                             "text": f"correspondence model/impl broken on {d['kind']}: impl={d['impl']} model={d['model']}",
                             "case": d})
    samples = [{"kind": k, "input": d, "impl": line_of(r, p), "model": m}
               for (k, d, o, t, p), r, m in list(zip(cases, impl, model))[:: max(1, len(cases) // 10)]]
    return {
        "evaluations": len(cases),
        "distinct_nontrivial": len(nontrivial),
        "rule": "cases = (operation, input) pairs over the number lattice (boundaries, 16-bit patterns per lane, random), byte strings of length 0..33 with fixed fills and random, scalars with every top byte 0..0x73, claims of all five types, mutated texts; distinct by hash of (operation, input); non-trivial = the implementation returned Ok (a value was produced and compared with the model's)",
        "samples": samples,
        "histograms": {"cases_by_operation": hist,
                       "impl_result_classes": {k: sum(1 for r in impl if r["r"] == k) for k in ("ok", "err", "panic", "skip")},
                       "disagreements": len(disagreements)},
        "failures": failures,
        "exhaustive": False,
        "exhaustive_note": "thorough tier enumerates all 16-bit patterns in each of the four 16-bit lanes (262144 values) for the integer encoding" if tier == "thorough" else "",
    }
