"""C17 — signature suites: signatures and proofs of knowledge bind key and messages."""
import itertools, json, random
import common as C
import pres_common as PC

EXTRA_VO = ["Exec/RunPres.vo", "Exec/RunSig.vo"]
HEADER_K = PC.HEADER
HEADER_S = """From Coq Require Import ZArith List String.
From ACV Require Import Exec.RunSig.
Import ListNotations. Open Scope Z_scope."""

TRUSTED_BASE = [
    "Coq 8.16.1 kernel; Print Assumptions of every C17 theorem: closed under the global context (for every K with is_field K, feqb_ok K)",
    "hand-written model coq/Model/Sigs.v (BBS/PS sign, verify, honest proof-of-knowledge provers) and coq/Model/Pres.v (pok_verify, pok_items, hidden_message_proofs) of src/knox/{bbs,ps}/{signature,pok_signature,pok_signature_proof}.rs in the exponent model",
    "BBS e = hash(sk, msgs) and PS m' = hash(msgs), sigma_1 = hash-to-curve(m') are arbitrary values for the theorems; hash-derived bases carry pseudo-logs in executed cases",
    "the BBS message generators of a key are treated as elements with hidden, independent logs; tie to the code: the harness recomputes them as hash-to-curve images of (per-key seed, index) — op d_bbs_gens, msg_gens.rs repeated — and compares with the key's generators, which must also be pairwise distinct",
    "correspondence: harness/src/ops_pok.rs (S::new_keys, Signature::create/verify, PokSignatureProof::{add_proof_contribution,verify,get_hidden_message_proofs} called directly with arbitrary revealed lists), lib/c17.py",
]
ASSUMPTIONS = ["unforgeability itself (q-SDH / PS assumption) is assumed, not proved", "blind-then-unblinded signatures are covered by C16"]

MSG_KINDS = ["r", "0", "1", "-1", "2"]
POK_DEVS = ["none", "none", "reveal_wrong_value", "reveal_drop", "reveal_add_true", "reveal_add_fake_low", "reverse", "rotate", "dup", "oob",
            "other_key", "wrong_secret", "resp_extra", "resp_short"]
MUST_REJECT = {"reveal_wrong_value", "reveal_drop", "reveal_add_true", "reveal_add_fake_low", "other_key", "wrong_secret", "resp_extra", "resp_short"}
SIG_CHANGES = ["none", "msg", "msg_swap", "a", "a_zero", "e", "s2", "mtick", "key", "msgs_short", "msgs_long"]


def coq_kcase(r):
    return f"mkK {PC.coq_pk(r['pk'])} ({sp(r['sp0'])}) ({sp(r['sp'])}) (z {PC.hz(r['c'])})"


def sp(p):
    disc = "(zp [" + ";".join(f"({d[0]}%nat,{PC.hz(d[1])})" for d in p["disc"]) + "])"
    resp = "(zs [" + ";".join(PC.hz(x) for x in p["resp"]) + "])"
    con = "PokPS" if p["suite"] == "ps" else "PokBBS"
    return f"mkSp Zr 0%nat {disc} ({con} Zr (z {PC.hz(p['e1'])}) (z {PC.hz(p['e2'])}) (z {PC.hz(p['e3'])}) {resp})"


def coq_sigcase(r):
    ys = "[" + ";".join(PC.hz(y) for y in r["y"]) + "]"
    ms = "[" + ";".join(PC.hz(m) for m in r["msgs"]) + "]"
    if r["suite"] == "ps":
        return f"SigPS {PC.hz(r['x'])} {PC.hz(r['w'])} {ys} {PC.hz(r['a'])} {PC.hz(r['s2'])} {PC.hz(r['mtick'])} {ms}"
    return f"SigBBS {PC.hz(r['x'])} {ys} {PC.hz(r['a'])} {PC.hz(r['e'])} {ms}"


def explore(ctx):
    tier, seed = ctx["tier"], ctx["seed"]
    rng = random.Random(seed)
    nmax = 16 if tier == "thorough" else 8
    pok_ops, sig_ops = [], []
    for suite in ("bbs", "ps"):
        # all partitions for n <= 4 (honest), random beyond; every deviation on random partitions
        for n in range(1, 5):
            for mask in itertools.product([False, True], repeat=n):
                pok_ops.append({"op": "f_pok", "suite": suite, "seed": rng.randrange(1 << 30), "n": n,
                                "msgs": [rng.choice(MSG_KINDS) for _ in range(n)], "reveal": list(mask), "dev": {"k": "none"}})
        reps = 10 if tier == "thorough" else 2
        for n in range(1, nmax + 1):
            for _ in range(reps):
                for d in POK_DEVS:
                    mask = [rng.random() < 0.5 for _ in range(n)]
                    if d in ("reveal_wrong_value", "reveal_drop", "dup") and not any(mask):
                        mask[rng.randrange(n)] = True
                    if d in ("reverse", "rotate") and sum(mask) < 2:
                        if n < 2:
                            continue
                        a, b = rng.sample(range(n), 2)
                        mask[a] = mask[b] = True
                    if d in ("reveal_add_true", "reveal_add_fake_low") and all(mask):
                        mask[rng.randrange(n)] = False
                    dev = {"k": d}
                    if d == "wrong_secret":
                        dev["slot"] = rng.randrange(8)
                    pok_ops.append({"op": "f_pok", "suite": suite, "seed": rng.randrange(1 << 30), "n": n,
                                    "msgs": [rng.choice(MSG_KINDS) for _ in range(n)], "reveal": mask, "dev": dev})
        for n in range(1, nmax + 1):
            for ch in SIG_CHANGES:
                if suite == "bbs" and ch in ("s2", "mtick"):
                    continue
                if suite == "ps" and ch in ("e",):
                    continue
                for i in range(min(n, 3)):
                    msgs = [rng.choice(MSG_KINDS) for _ in range(n)]
                    if ch == "msg_swap" and n >= 2:
                        msgs[0], msgs[1] = "1", "2"
                    sig_ops.append({"op": "f_sigv", "suite": suite, "seed": rng.randrange(1 << 30), "n": n,
                                    "msgs": msgs, "change": {"k": ch, "i": rng.randrange(n)}})
    if ctx.get("replay"):
        rp = json.load(open(ctx["replay"]))
        sc = rp.get("case", {}).get("scenario")
        if sc:
            pok_ops, sig_ops = ([sc], []) if sc["op"] == "f_pok" else ([], [sc])
    failures, samples = [], []
    hist = {"pok": {}, "sig": {}, "n": {}}
    distinct = set()
    # ---- proofs of knowledge
    impl = C.run_exec_parallel(pok_ops, nproc=16) if pok_ops else []
    good = [(o, r) for o, r in zip(pok_ops, impl) if r.get("r") == "ok" and "sp" in r]
    for o, r in zip(pok_ops, impl):
        if not (r.get("r") == "ok" and ("sp" in r or r.get("impl") == "panic")):
            failures.append({"class": None, "witness": False, "text": f"harness failure {json.dumps(r)[:200]}", "case": {"scenario": o}})
    for _, r in good:
        r["c"] = r["sp"]["resp"] and r.get("c")  # placeholder
    # the challenge is not echoed separately: recover it from the model inputs is unnecessary, the harness passes it in sp via resp;
    # we need c explicitly for pok_items/pok_verify, so the harness reports it:
    model = []
    if good:
        terms = []
        for o, r in good:
            r["c"] = r.get("chal") or "0"
            terms.append(coq_kcase(r))
        model = C.run_model("C17", HEADER_K, terms, runner="run_kall", shard_size=max(8, len(terms) // 32 + 1), timeout=1800, tag="kcases")
    for (o, r), m in zip(good, model):
        d = o["dev"]["k"]
        hist["pok"][d] = hist["pok"].get(d, 0) + 1
        hist["n"][str(o["n"])] = hist["n"].get(str(o["n"]), 0) + 1
        distinct.add(C.case_hash([o["suite"], o["n"], o["reveal"], d]))
        mverd = m.split(" ")[0]
        mh = m.split(" hid=")[1] if " hid=" in m else ""
        ih = "none" if r.get("hidden") is None else ",".join(f"{h[0]}:{h[1]}" for h in r["hidden"])
        case = {"scenario": o, "impl": r["impl"], "impl_fs": r.get("fs"), "impl_ver": r.get("ver"), "model": m[:120]}
        if len(samples) < 5 and rng.random() < 0.02:
            samples.append(case)
        if d in ("none", "reverse", "rotate") and r["impl"] != "accept":
            failures.append({"class": None, "witness": True, "text": f"honest proof of knowledge with the true revealed messages ({d} order, {o['suite']}, n={o['n']}) is not accepted: {r['impl']}; model {mverd}", "case": case})
        elif d in MUST_REJECT and r["impl"] == "accept":
            failures.append({"class": None, "witness": True, "text": f"proof of knowledge accepted with deviation {d} ({o['suite']}, n={o['n']}); model {mverd}", "case": case})
        elif (r["impl"] == "accept") != (mverd == "accept"):
            failures.append({"class": None, "witness": False, "text": f"model/implementation correspondence broken (pok): impl={r['impl']} fs={r.get('fs')} ver={r.get('ver')} model={m[:60]} dev={d}", "case": case})
        elif ih != mh:
            failures.append({"class": None, "witness": False, "text": f"model/implementation correspondence broken (get_hidden_message_proofs): impl={ih[:80]} model={mh[:80]} dev={d}", "case": case})
    # ---- plain signatures
    impl = C.run_exec_parallel(sig_ops, nproc=16) if sig_ops else []
    good = [(o, r) for o, r in zip(sig_ops, impl) if r.get("r") == "ok" and "msgs" in r]
    model = C.run_model("C17", HEADER_S, [coq_sigcase(r) for _, r in good], runner="run_sigall", shard_size=max(8, len(good) // 32 + 1), timeout=1800, tag="sigcases") if good else []
    for (o, r), m in zip(good, model):
        ch = o["change"]["k"]
        hist["sig"][ch] = hist["sig"].get(ch, 0) + 1
        distinct.add(C.case_hash([o["suite"], o["n"], ch, o["change"]["i"]]))
        case = {"scenario": o, "impl": r["impl"], "model": m}
        if ch == "none" and r["impl"] != "accept":
            failures.append({"class": None, "witness": True, "text": f"fresh signature does not verify ({o['suite']}, n={o['n']})", "case": case})
        elif ch == "msg_swap" and len(r["msgs"]) >= 2 and r["msgs"][0] != r["msgs"][1] and r["impl"] == "accept":
            failures.append({"class": None, "witness": True,
                             "text": f"signature verifies with two different messages exchanged ({o['suite']}, n={o['n']}): it does not bind the positions of the messages; model {m}", "case": case})
        elif len(set(r["y"])) != len(r["y"]):
            failures.append({"class": None, "witness": True,
                             "text": f"key generation produced repeated message generators ({o['suite']}, n={o['n']}): signatures under this key bind only sums of messages", "case": case})
        elif ch in ("msg", "a", "a_zero", "e", "s2", "mtick", "key") and r["impl"] == "accept":
            failures.append({"class": None, "witness": True, "text": f"signature verifies after change '{ch}' ({o['suite']}, n={o['n']}); model {m}", "case": case})
        elif r["impl"] != m:
            failures.append({"class": None, "witness": False, "text": f"model/implementation correspondence broken (signature verify): impl={r['impl']} model={m} change={ch}", "case": case})
    # the independence assumption on the BBS message generators
    for n_, r_ in zip((1, 2, 5, 9, 16), C.run_exec([{"op": "d_bbs_gens", "n": k} for k in (1, 2, 5, 9, 16)])):
        if r_.get("r") != "ok":
            raise C.Infra("d_bbs_gens: " + json.dumps(r_)[:300])
        if not (r_["same"] and r_["distinct"]):
            failures.append({"class": None, "witness": False, "case": {"op": {"op": "d_bbs_gens", "n": n_}, "result": r_},
                             "text": "correspondence broken: the BBS message generators of a key are not the independent hash-to-curve outputs (per-key seed, index) the theorems' "
                                     "independence assumption rests on; a known relation between generators lets a holder move value between messages"})
    return {
        "evaluations": len(pok_ops) + len(sig_ops),
        "distinct_nontrivial": len(distinct),
        "rule": f"cases = (suite, key capacity 1..{nmax}, message vector with 0/1/r-1/2/random entries, reveal mask, deviation): all 2^n partitions for n<=4 with the honest prover, random partitions for every deviation (wrong / dropped / added revealed entries, reversed / rotated / duplicated / out-of-range lists, other key, wrong secret, response vector length +-1), and signature verification after every single-component change; each case runs credx at the knox level and the Coq model (verdict, and the full get_hidden_message_proofs map) ; distinct by (suite, n, mask, deviation)",
        "samples": samples or [{"scenario": pok_ops[0]}],
        "histograms": hist,
        "failures": failures,
        "exhaustive": True,
        "exhaustive_note": "all reveal/hide partitions for key capacities 1..4 (honest prover), both suites; everything else sampled",
    }
