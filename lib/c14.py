"""C14 — public witness updates agree with secret-key recomputation."""
import json, random
import common as C

R = 0x73eda753299d7d483339d80809a1d80553bda402fffe5bfeffffffff00000001
EXTRA_VO = ["Exec/RunC14.vo"]
HEADER = """From Coq Require Import ZArith List String.
From ACV Require Import Exec.RunC14.
Import ListNotations. Open Scope Z_scope."""

TRUSTED_BASE = [
    "Coq 8.16.1 kernel; Print Assumptions of every C14 theorem: closed under the global context (theorems are stated for every K with is_field K and feqb_ok K; no axiom)",
    "hand-written model coq/Model/Accumulator.v of src/knox/accumulator/vb20.rs (Polynomial, PolynomialG1, dad), vb20/key.rs, vb20/accumulator.rs, vb20/witness.rs in the exponent model (G1 points as discrete logs, pairing check C*(y+alpha)=V)",
    "executable field instance Exec/ZrBig.v (Bignums BigZ mod r) used only to run the model; that Z/rZ is a field (r prime) is not proved and no theorem depends on it",
    "correspondence: harness/src/ops_acc.rs compares every implementation point with G*(model exponent), every scalar exactly, and reports verify() verdicts; lib/c14.py",
]
ASSUMPTIONS = [
    "non-degeneracy hypotheses of the theorems: (d + alpha) <> 0 for deleted elements (the code panics otherwise), dD(y) <> 0 i.e. y not deleted, y + alpha <> 0 for uniqueness of the witness",
    "a stale witness fails only if the accumulator value actually changed (V' <> V)",
]


def rs(rng):
    k = rng.random()
    if k < 0.04:
        return rng.choice([0, 1, 2, R - 1, R - 2])
    if k < 0.12:
        return rng.randrange(0, 1000)
    return rng.randrange(0, R)


def gen_case(rng, tier):
    kmax = 6 if tier == "thorough" else 4
    k = rng.randrange(1, kmax + 1)
    pool = [rs(rng) for _ in range(6)]
    hist = []
    for _ in range(k):
        na = rng.choice([0, 0, 1, 1, 2, 3, 4, 5])
        nd = rng.choice([0, 0, 1, 1, 2, 3, 4, 5])
        if rng.random() < 0.15:
            na, nd = rng.choice([(1, 0), (0, 1), (0, 0)])
        A = [rs(rng) if rng.random() < 0.8 else rng.choice(pool) for _ in range(na)]
        D = [rs(rng) if rng.random() < 0.8 else rng.choice(pool) for _ in range(nd)]
        hist.append((A, D))
    mode = rng.random()
    y = rs(rng)
    ykind = "outside"
    if mode < 0.2:
        cand = [(i, a) for i, (A, D) in enumerate(hist) for a in A]
        if cand:
            y = rng.choice(cand)[1]
            ykind = "added"
    elif mode < 0.45:
        cand = [(i, d) for i, (A, D) in enumerate(hist) for d in D]
        if cand:
            y = rng.choice(cand)[1]
            ykind = "deleted"
    els = [rs(rng) for _ in range(rng.randrange(0, 5))]
    if rng.random() < 0.08 and els:
        els[rng.randrange(len(els))] = y
    # groups: random composition of k
    groups, left = [], k
    while left > 0:
        n = rng.randrange(1, left + 1)
        groups.append(n)
        left -= n
    alpha = rs(rng)
    # keep away from the panicking inputs (d + alpha = 0, y + alpha = 0)
    bad = {(-d) % R for (A, D) in hist for d in D} | {(-y) % R} | {(-e) % R for e in els}
    while alpha in bad:
        alpha = rng.randrange(0, R)
    return {"alpha": alpha, "v0": rs(rng) or 5, "y": y, "hist": hist, "groups": groups, "els": els, "ykind": ykind}


def coq_case(c):
    h = "[" + "; ".join("([" + ";".join(str(a) for a in A) + "], [" + ";".join(str(d) for d in D) + "])" for A, D in c["hist"]) + "]"
    return (f"mkC14 {c['alpha']} {c['v0']} {c['y']} {h} [" + ";".join(f"{g}%nat" for g in c["groups"]) + "] ["
            + ";".join(str(e) for e in c["els"]) + "]")


def parse_model(line):
    d = {}
    for tok in line.split(" "):
        k, _, v = tok.partition("=")
        d[k] = v
    sp = lambda s: [x for x in s.split(",") if x != ""]
    return {"vals": sp(d["vals"]), "coeffs": [sp(x) for x in d["coeffs"].split("/")] if d["coeffs"] != "" or True else [],
            "seq": sp(d["seq"]), "multi": d["multi"], "grouped": d["grouped"], "single": sp(d["single"]),
            "nvals": sp(d["nvals"]), "nm": sp(d["nm"]), "nmmulti": d["nmmulti"], "nmsingle": sp(d.get("nmsingle", ""))}


def hx(z):
    return "%064x" % z


def explore(ctx):
    tier, seed = ctx["tier"], ctx["seed"]
    rng = random.Random(seed)
    n = 6000 if tier == "thorough" else 480
    cases = [gen_case(rng, tier) for _ in range(n)]
    # corner shapes first
    fixed = []
    for A, D in [([], []), ([3], []), ([], [4]), ([3, 5], []), ([], [4, 6]), ([1, 2, 3], [4, 5]), ([7], [8])]:
        fixed.append({"alpha": 11, "v0": 9, "y": 100, "hist": [(A, D)], "groups": [1], "els": [21, 22], "ykind": "outside"})
    fixed.append({"alpha": 11, "v0": 9, "y": 4, "hist": [([3], [4])], "groups": [1], "els": [21], "ykind": "deleted"})
    fixed.append({"alpha": 11, "v0": 9, "y": 100, "hist": [([1], []), ([2, 3, 4], [1]), ([5, 6, 7, 8], [2])], "groups": [3], "els": [1], "ykind": "outside"})
    fixed.append({"alpha": 11, "v0": 9, "y": 100, "hist": [([1, 2, 3, 4], []), ([5], [1]), ([], [])], "groups": [1, 2], "els": [], "ykind": "outside"})
    cases = fixed + cases
    if ctx.get("replay"):
        rp = json.load(open(ctx["replay"]))
        if "hist" in rp.get("case", {}):
            cases = [rp["case"]]
    model = C.run_model("C14", HEADER, [coq_case(c) for c in cases], shard_size=max(8, len(cases) // 48 + 1), timeout=2400)
    ops = []
    for c, m in zip(cases, model):
        pm = parse_model(m)
        # coeffs list must have one entry per epoch (an epoch with no coefficients prints as empty)
        co = pm["coeffs"]
        if len(co) != len(c["hist"]):
            co = (co + [[]] * len(c["hist"]))[:len(c["hist"])]
        pm["coeffs"] = co
        ops.append({"op": "f_acc", "alpha": hx(c["alpha"]), "v0": hx(c["v0"]), "y": hx(c["y"]),
                    "hist": [[[hx(a) for a in A], [hx(d) for d in D]] for A, D in c["hist"]],
                    "groups": c["groups"], "els": [hx(e) for e in c["els"]], "expect": pm})
    impl = C.run_exec_parallel(ops, nproc=16)
    failures, samples, distinct = [], [], set()
    hist = {"outside": 0, "added": 0, "deleted": 0, "epochs": {}, "batch_sizes": {}, "nm_none": 0, "single_multi_wrong": 0, "groups>1": 0}
    for c, op, r in zip(cases, ops, impl):
        case = {k: c[k] for k in ("alpha", "v0", "y", "hist", "groups", "els", "ykind")}
        hist[c["ykind"]] += 1
        hist["epochs"][str(len(c["hist"]))] = hist["epochs"].get(str(len(c["hist"])), 0) + 1
        for A, D in c["hist"]:
            key = f"{len(A)}+{len(D)}"
            hist["batch_sizes"][key] = hist["batch_sizes"].get(key, 0) + 1
        if len(c["groups"]) > 1:
            hist["groups>1"] += 1
        if r.get("r") != "ok":
            failures.append({"class": None, "witness": True, "text": f"implementation panicked or failed: {r}", "case": case})
            continue
        distinct.add(C.case_hash([c["hist"], c["y"] % 1000, c["groups"]]))
        # epoch at which y is deleted (first), epochs where y is added
        del_ep = next((i for i, (A, D) in enumerate(c["hist"]) if c["y"] in D), None)
        added = any(c["y"] in A for A, D in c["hist"])
        k = len(c["hist"])
        oracle = []
        # ---- implementation-only reading of the property
        for i in range(k + 1):
            alive = del_ep is None or i <= del_ep          # witness index i is after i epochs
            if alive:
                if not r["seq_verify"][i] or not r["scratch_eq"][i]:
                    oracle.append(f"batch update after {i} epochs: verify={r['seq_verify'][i]} equals-from-scratch={r['scratch_eq'][i]} although y was not deleted")
        if del_ep is None:
            if not (r["multi_verify"] and r["multi_scratch"]):
                oracle.append(f"multi-batch update over {k} epochs: verify={r['multi_verify']} equals-from-scratch={r['multi_scratch']}")
            if not r["grouped_verify"]:
                oracle.append(f"multi-batch update grouped {c['groups']}: does not verify")
            if r["nm_verify"] and not added and not all(r["nm_verify"]):
                oracle.append(f"non-membership batch updates: verify={r['nm_verify']}")
            if r["nmmulti_verify"] is False and not added:
                oracle.append("non-membership multi-batch update does not verify")
        elif not any(c["y"] in A for A, D in c["hist"][del_ep:]):
            # clean deletion: y is deleted in epoch del_ep and never (re-)added from that epoch on
            if r["multi_verify"] and any(len(A) + len(D) > 0 for A, D in c["hist"]):
                oracle.append(f"y deleted in epoch {del_ep} but the multi-batch witness verifies")
            for i in range(del_ep + 1, k + 1):
                if r["seq_verify"][i]:
                    oracle.append(f"y deleted in epoch {del_ep} but the batch-updated witness verifies after {i} epochs")
                if r["single_verify"][i]:
                    oracle.append(f"y deleted in epoch {del_ep} but the single-step witness verifies after {i} epochs")
        # single-step: must be right while every epoch so far has at most one element
        small = True
        single_wrong_multi = False
        for i in range(1, k + 1):
            A, D = c["hist"][i - 1]
            if len(A) + len(D) > 1:
                small = False
            if (del_ep is None or i <= del_ep) and not r["single_verify"][i]:
                if small:
                    oracle.append(f"single-step update (every epoch <= 1 element) does not verify after {i} epochs")
                else:
                    single_wrong_multi = True
        # ---- model vs implementation
        diffs = []
        for key in ("vals_ok", "coeffs_ok", "seq_ok", "single_ok", "nvals_ok"):
            if not all(r[key]):
                diffs.append(f"{key}={r[key]}")
        for key in ("multi_ok", "grouped_ok", "nmmulti_ok"):
            if r[key] is False:
                diffs.append(f"{key}=false")
        if isinstance(r["nm_ok"], list) and not all(r["nm_ok"]):
            diffs.append(f"nm_ok={r['nm_ok']}")
        if r["nm_ok"] is False:
            diffs.append("nm_ok=false")
        if isinstance(r["nm_ok"], bool):
            hist["nm_none"] += 1
        # non-membership, single-step procedure: point for point against the model, and it must verify while every epoch so
        # far has at most one element and y is never touched (theorems C14_single_add_correct_nm / C14_single_del_correct_nm)
        if isinstance(r.get("nmsingle_ok"), list):
            hist["nmsingle"] = hist.get("nmsingle", 0) + 1
            if not all(r["nmsingle_ok"]):
                diffs.append(f"nmsingle_ok={r['nmsingle_ok']}")
            small2 = True
            for i in range(1, k + 1):
                A, D = c["hist"][i - 1]
                if len(A) + len(D) > 1 or c["y"] in A or c["y"] in D:
                    small2 = False
                if small2 and not r["nmsingle_verify"][i]:
                    oracle.append(f"non-membership single-step update (every epoch <= 1 element, y untouched) does not verify after {i} epochs")
                    break
        if len(samples) < 6 and (len(c["hist"]) >= 2 or len(samples) < 2) and rng.random() < 0.05:
            samples.append({"case": case, "impl": {k2: r[k2] for k2 in ("seq_verify", "multi_verify", "grouped_verify", "single_verify", "nm_verify", "coeff_lens")}})
        if single_wrong_multi:
            hist["single_multi_wrong"] += 1
            failures.append({"class": "single-step-update-multi", "witness": True,
                             "text": "MembershipWitness::update with more than one addition/deletion in a call yields a witness that does not verify (theorem C14_single_two_additions_refuted)",
                             "case": case})
        if oracle:
            failures.append({"class": None, "witness": True, "text": "; ".join(oracle[:4]) + (" || model/impl: " + "; ".join(diffs[:3]) if diffs else ""), "case": case})
        elif diffs:
            failures.append({"class": None, "witness": False, "text": "model/implementation correspondence broken: " + "; ".join(diffs[:6]), "case": case})
    failures.sort(key=lambda f: (f.get("class") is not None, sum(len(A) + len(D) for A, D in f["case"].get("hist", []))))
    if not samples:
        samples.append({"case": {k: cases[0][k] for k in ("alpha", "v0", "y", "hist", "groups", "els")}})
    return {
        "evaluations": len(cases),
        "distinct_nontrivial": len(distinct),
        "rule": "cases = accumulator histories of 1..4 (thorough 1..6) epochs with 0..5 additions and 0..5 deletions each (empty sides, singletons, repeated elements), tracked element y outside / added / deleted, random grouping into multi-batch calls, random and special scalars (0,1,2,r-1,r-2, small); each compares the manager's values and coefficient vectors, every batch / multi-batch / grouped / single-step membership update and every non-membership batch / multi-batch / single-step update point-by-point (impl point == G * model exponent) and evaluates verify()/from-scratch equality on the implementation; distinct by (history, y mod 1000, grouping)",
        "samples": samples,
        "histograms": hist,
        "failures": failures,
        "exhaustive": False,
    }
