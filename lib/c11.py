"""C11 — tamper evidence: any change to an accepted presentation makes it fail."""
import json, random, re
import common as C
import create_common as CC
import pres_common as PC
import pres_check as K

EXTRA_VO = PC.EXTRA_VO
TRUSTED_BASE = K.TRUSTED_COMMON + [
    "theorems cover the modelled proof kinds (BBS / PS signature proofs, commitment, equality, and the element response of a revocation proof); for the rest of the revocation proof, membership, range and verifiable-encryption proofs the single-site mutations are run against the implementation only",
    "correspondence: (a) post-creation modifications of the external prover's presentations evaluated by the Coq verifier model and by Presentation::verify; (b) Presentation::create output over every statement kind, every scalar / point leaf replaced by a random element, zero / identity, its negation, +1 / +G and a sibling leaf, every proof removed, two proofs swapped, challenge +1, disclosed claim value / label changed, single-byte and single-bit changes of the BARE encoding (harness/src/ops_create.rs action tamper)",
]
ASSUMPTIONS = ["generators and a_bar, b_bar are not the identity (checked by the verifier / by key validity)",
               "decoders reject non-canonical scalars and off-curve points (blstrs_plus)"]

DEVS = [
    {"dev": {"k": "tamper_resp", "slot": 0}}, {"dev": {"k": "tamper_resp", "slot": 1}}, {"dev": {"k": "tamper_resp", "slot": 2}}, {"dev": {"k": "tamper_resp", "slot": 3}},
    {"dev": {"k": "tamper_resp_neg", "slot": 1}}, {"dev": {"k": "tamper_resp_swap"}},
    {"dev": {"k": "tamper_e1"}}, {"dev": {"k": "tamper_e2"}}, {"dev": {"k": "tamper_e3"}},
    {"dev": {"k": "tamper_disc_scalar"}, "need_disclosed": 1}, {"dev": {"k": "tamper_reported"}, "need_disclosed": 1},
    {"dev": {"k": "tamper_bp"}, "target": "c0"}, {"dev": {"k": "tamper_C"}, "target": "c0"},
    {"dev": {"k": "tamper_extend_minus_c"}}, {"dev": {"k": "tamper_extend_zero"}}, {"dev": {"k": "tamper_shorten"}},
    {"dev": {"k": "challenge_arbitrary"}}, {"dev": {"k": "omit_sig"}}, {"dev": {"k": "omit_pred"}, "target": "c0"},
    {"dev": {"k": "rev_tamper_sy"}, "target": "r0"}, {"dev": {"k": "omit_pred"}, "target": "r0"},
    {"dev": {"k": "inner_id_other", "other": "zz"}}, {"dev": {"k": "resp_len", "delta": 1}}, {"dev": {"k": "resp_len", "delta": -1}},
]
SHAPES = [dict(n_creds=1, comm=True), dict(n_creds=2, eq=True, comm=True), dict(n_creds=1), dict(n_creds=1, rev=True, comm=True, n_claims=4)]


def explore(ctx):
    tier, seed = ctx["tier"], ctx["seed"]
    res = K.explore_generic("C11", ctx, DEVS, SHAPES, {"C11"},
                            "(post-creation modifications: each response +1 / negated / swapped, each group element +G, disclosed scalar, reported claim, commitment and its blinder response, challenge, removed proofs, altered carried id, response vector shortened / extended)")
    # (b) implementation: every leaf of honestly created presentations
    rng = random.Random(seed + 11)
    n = 160 if tier == "thorough" else 20
    cs = []
    for i in range(n):
        heavy = (i % 5 == 0)
        s = CC.gen(rng, "ps" if i % 2 else "bbs", kinds=["rev", "mem", "eq", "comm", "range", "venc"] + (["vencdec", "vdec"] if heavy else []), heavy=heavy)
        s["action"] = {"k": "tamper", "max": 600 if tier == "thorough" else 250, "bytes": 200 if tier == "thorough" else 60}
        cs.append(s)
    if ctx.get("replay"):
        rp = json.load(open(ctx["replay"]))
        if rp.get("case", {}).get("op") == "f_create":
            cs = [rp["case"]]
    impl = C.run_exec_parallel(cs, nproc=16, timeout=7200)
    hist = res["histograms"]
    hist["leaf_mutations"] = {}
    hist["leaf_outcomes"] = {}
    n_leaf = 0
    distinct = set()
    for s, r in zip(cs, impl):
        if r.get("create") != "ok" or r.get("verify") != "ok" or not isinstance(r.get("tamper"), list):
            res["failures"].append({"class": None, "witness": False, "text": f"honest baseline failed: {json.dumps(r)[:300]}", "case": s})
            continue
        if not r.get("json_roundtrip", True):
            res["failures"].append({"class": None, "witness": False, "text": "CBOR value round trip of the honest presentation is not accepted", "case": s})
        for t in r["tamper"]:
            n_leaf += 1
            gp = re.sub(r"\d+", "N", t["path"])
            gp = re.sub(r"^proofs/[a-z]N/", "", gp)
            key = f"{gp}:{t['kind']}"
            hist["leaf_mutations"][key] = hist["leaf_mutations"].get(key, 0) + 1
            hist["leaf_outcomes"][t["out"]] = hist["leaf_outcomes"].get(t["out"], 0) + 1
            distinct.add(C.case_hash([s["suite"], gp, t["kind"]]))
            if t["out"] == "ok":
                case = dict(s)
                case["tamper"] = t
                res["failures"].append({"class": None, "witness": True,
                                        "text": f"modified presentation is ACCEPTED: {t['path']} ({t['kind']}) suite {s['suite']}", "case": case})
            # panics while decoding corrupted bytes are C20's subject (they are not acceptance)
    # (c) every structural leaf of the presentation's value tree that is not a scalar / point: flags, integers,
    #     texts, lengths of lists, keys (the mutation harness of C20, read for acceptance instead of panics)
    if not ctx.get("replay"):
        import c20
        jobs = []
        for suite in ("bbs", "ps"):
            for wname, w in (("full", c20.world(rng, suite, heavy=True)), ("small", c20.small_world(rng, suite))):
                base = dict(w, op="f_total", target="verify", obj="pres")
                d = C.run_exec([dict(base, sel={"describe": True})])[0]
                sel = [i for i, t in enumerate(d.get("tags", [])) if t in c20.FULL_TAGS or (tier == "thorough" and t in ("set-bytes", "bytes-set")) or rng.randrange(12) == 0]
                for ch in c20.chunks(sel, 120):
                    jobs.append((suite, wname, dict(base, sel={"list": ch})))
        import concurrent.futures as cf
        with cf.ThreadPoolExecutor(max_workers=16) as ex:
            outs = list(ex.map(lambda j: C.run_exec([j[2]], timeout=7200)[0], jobs))
        hist["structural_mutations"] = {}
        for (suite, wname, op), r in zip(jobs, outs):
            if r.get("base") != "ok":
                res["failures"].append({"class": None, "witness": False, "text": f"honest baseline not accepted after a value-tree round trip ({suite}, {wname})", "case": op})
                continue
            for x in r.get("results", []):
                if x.get("decode") != "ok":
                    continue
                n_leaf += 1
                tag = x["desc"].split(":")[1]
                key = f"{tag}:{'same-object' if x.get('same') else x.get('out')}"
                hist["structural_mutations"][key] = hist["structural_mutations"].get(key, 0) + 1
                distinct.add(C.case_hash([suite, wname, x["desc"]]))
                if x.get("out") == "ok" and not x.get("same"):
                    res["failures"].append({"class": None, "witness": True,
                                            "text": f"modified presentation is ACCEPTED: {x['desc']} ({suite})", "case": dict(op, sel={"list": [x["i"]]})})
    if len(res["samples"]) < 12:
        res["samples"].append({"leaf_mutations_of_first_case": [t for t in (impl[0].get("tamper") or [])[:6]]} if impl and isinstance(impl[0].get("tamper"), list) else {})
    res["evaluations"] += n_leaf
    res["distinct_nontrivial"] += len(distinct)
    res["rule"] += "; plus, on Presentation::create output over every statement kind: every scalar / point leaf x {random, zero / identity, negation, +1 / +G, sibling leaf}, each proof removed, two proofs swapped, challenge +1, each disclosed claim's value and label, random single-byte and single-bit changes of the BARE encoding (a change the decoder normalises back to the same object is not counted); and every other leaf of the presentation's value tree (flags, integers, texts, list lengths, map keys) changed once"
    return res
