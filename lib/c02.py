"""C02 — disclosed claims are exactly those requested and exactly what the issuer signed."""
import pres_common as PC
import pres_check as K

EXTRA_VO = PC.EXTRA_VO
TRUSTED_BASE = K.TRUSTED_COMMON + [
    "labels are abstracted to claim indices (label -> index through the issuer schema of the statement); requested labels unknown to the issuer schema are ignored, as the honest holder cannot disclose them",
    "that the scalars the proof of knowledge is checked against are the SIGNED ones rests on C01 (special soundness + unforgeability assumption)",
]
ASSUMPTIONS = ["claim encoding is injective per type (C18); unforgeability (C01)"]

DEVS = [
    {"dev": {"k": "false_reported_subst"}, "need_disclosed": 1},
    {"dev": {"k": "false_reported_type"}, "need_disclosed": 1},
    {"dev": {"k": "false_reported_omit"}, "need_disclosed": 1},
    {"dev": {"k": "false_reported_extra"}},
    {"dev": {"k": "false_reported_unknown_label"}, "need_disclosed": 1},
    {"dev": {"k": "false_reported_swap"}, "need_disclosed": 2},
    {"dev": {"k": "disc_reverse"}, "need_disclosed": 2},
    # degenerate proofs under which the disclosed scalars are bound to nothing signed
    {"dev": {"k": "identity"}, "need_disclosed": 1},
    {"dev": {"k": "random_e2"}, "need_disclosed": 1},
    {"dev": {"k": "reported_reorder"}, "need_disclosed": 2},
    {"dev": {"k": "reported_reorder"}, "need_disclosed": 3},
    {"dev": {"k": "disc_dup"}, "need_disclosed": 1},
    {"dev": {"k": "disc_pad_oob_first"}, "need_disclosed": 1},
    {"dev": {"k": "disc_pad_oob_last"}, "need_disclosed": 1},
    {"dev": {"k": "disc_withhold"}, "need_disclosed": 1},
    {"dev": {"k": "reported_missing_entry"}},
    {"dev": {"k": "subst_disclosed_everywhere"}, "need_disclosed": 1},
    {"dev": {"k": "false_zero_disclosed"}, "need_disclosed": 1},
    {"dev": {"k": "false_zero_disclosed"}, "need_disclosed": 2},
    {"dev": {"k": "swap_disclosed_everywhere"}, "need_disclosed": 2},
    {"dev": {"k": "swap_disclosed_everywhere"}, "need_disclosed": 3},
    # a false disclosed value carried by an over-long response vector (the surplus response absorbs the difference)
    {"dev": {"k": "resp_len_exploit"}, "need_disclosed": 1},
    {"dev": {"k": "resp_len_exploit"}, "need_disclosed": 2},
    {"dev": {"k": "withhold_consistent"}, "need_disclosed": 1},
    {"dev": {"k": "withhold_consistent"}, "need_disclosed": 2},
    {"dev": {"k": "extra_consistent"}},
]
SHAPES = [dict(n_creds=1, n_claims=5), dict(n_creds=1, comm=True, n_claims=5), dict(n_creds=2, eq=True, n_claims=5), dict(n_creds=1, n_claims=3), dict(n_creds=1, n_claims=4, disclosed=[])]


def explore(ctx):
    return K.explore_generic("C02", ctx, DEVS, SHAPES, {"C02"},
                             "(reported map with substituted value of the same / another claim type, omitted label, extra label, unknown label, swapped labels; proof index list reversed, aliased, padded with out-of-range indices in front / at the end, a requested claim withheld from the index list, missing map entry, consistently substituted value, the values of two disclosed claims exchanged consistently, a requested claim kept hidden in the proof and reported as a zero-valued claim, also behind an over-long response vector, a requested claim withheld consistently everywhere, an unrequested claim disclosed consistently everywhere)")
