#!/bin/bash
# confirm_seed.sh <worktree> <seed-name> <property>
# Confirms in the scratch worktree: with the patch the crate compiles and the existing suite passes while the
# demo fails; without the patch the demo passes.  Stores patch, demo, notes and the log under /verif/seeded/<name>/.
set -u
WT=$1; NAME=$2; PID=$3
OUT=/verif/seeded/$NAME
mkdir -p $OUT
cp $WT/seeded/patch.diff $OUT/patch.diff
cp $WT/seeded/demo.rs $OUT/demo.rs
cp $WT/seeded/NOTES.md $OUT/NOTES.md 2>/dev/null
LOG=$OUT/confirm.log
: > $LOG
cd $WT
export CARGO_NET_OFFLINE=true
git checkout -q -- src samples 2>/dev/null
cp $OUT/demo.rs tests/seeded_demo.rs
echo "== without patch: demo" >> $LOG
cargo test --offline --test seeded_demo >> $LOG 2>&1; R_DEMO_CLEAN=$?
git apply $OUT/patch.diff || { echo "patch does not apply" >> $LOG; exit 1; }
echo "== with patch: demo" >> $LOG
cargo test --offline --test seeded_demo >> $LOG 2>&1; R_DEMO_PATCH=$?
mv tests/seeded_demo.rs /tmp/seeded_demo_$NAME.rs
echo "== with patch: existing suite" >> $LOG
cargo test --offline --no-fail-fast >> $LOG 2>&1; R_SUITE=$?
mv /tmp/seeded_demo_$NAME.rs tests/seeded_demo.rs
git checkout -q -- samples 2>/dev/null
echo "RESULT demo_clean_rc=$R_DEMO_CLEAN demo_patched_rc=$R_DEMO_PATCH suite_patched_rc=$R_SUITE" | tee -a $LOG
python3 - <<PY
import json
json.dump({"property": "$PID", "name": "$NAME",
           "confirmed": {"demo_passes_without_patch": $R_DEMO_CLEAN == 0, "demo_fails_with_patch": $R_DEMO_PATCH != 0,
                         "existing_suite_passes_with_patch": $R_SUITE == 0},
           "ran": ["cargo test --offline --test seeded_demo (clean tree)", "git apply patch.diff; cargo test --offline --test seeded_demo",
                   "cargo test --offline --no-fail-fast (patched, demo removed)"],
           "needs_to_manifest": "see NOTES.md", "detected_by": []}, open("$OUT/meta.json", "w"), indent=1)
PY
