"""C09 — equality statements are accepted only for identical signed values."""
import pres_common as PC
import pres_check as K

EXTRA_VO = PC.EXTRA_VO
TRUSTED_BASE = K.TRUSTED_COMMON
ASSUMPTIONS = ["special soundness: equal responses under two challenges give equal extracted messages (theorem C09_equal_responses_equal_values); unforgeability (C01)"]

DEVS = [
    {"dev": {"k": "eq_independent_nonces"}},
    {"dev": {"k": "eq_copy_response"}},
    {"dev": {"k": "eq_unequal_shared_nonce"}},
    {"dev": {"k": "eq_one_side_disclosed"}},
    {"dev": {"k": "eq_disc_reverse_exploit"}},
    {"dev": {"k": "omit_pred"}, "target": "e0"},
    {"dev": {"k": "variant_under_sig", "variant": "eq"}, "target": "s1"},
    {"dev": {"k": "disc_pad_oob_first"}, "need_disclosed": 1, "target": "s1"},
]
SHAPES = [dict(n_creds=2, eq=True), dict(n_creds=3, eq=True), dict(n_creds=2, eq=True, comm=True), dict(n_creds=3, eq=True, n_claims=4), dict(n_creds=4, eq=True, n_claims=3)]


def honest_equalities(ctx):
    """the other half of the property: an honest holder whose referenced values are identical always succeeds,
    however the verifier writes the equalities (one statement, a chain of pairwise statements in either member order, a star in either order, overlapping statements with shuffled members)"""
    import random
    import common as C
    import create_common as CC
    rng = random.Random(ctx["seed"] + 9)
    cs = []
    for i in range(120 if ctx["tier"] == "thorough" else 24):
        n = 3 + (i % 2)
        s = CC.gen(rng, "ps" if i % 2 else "bbs", n_creds=n, kinds=["eq", "comm"], eq_shape=["chain", "star", "one", "chain_rev", "star_last", "mixed"][i % 6])
        if not any(st["k"] == "eq" for st in s["stmts"]):
            continue
        if i % 2:
            # identical signed values need not be identical claims: the same bytes as text in one credential, as opaque bytes in the next
            for ci, cr in enumerate(s["creds"]):
                if ci % 2 and cr["claims"][1]["t"] == "h":
                    cr["claims"][1] = dict(cr["claims"][1], pf=not cr["claims"][1].get("pf", False))
        cs.append(s)
    out = []
    for s, r in zip(cs, C.run_exec_parallel(cs, nproc=16) if len(cs) >= 64 else [C.run_exec([c])[0] for c in cs]):
        if r.get("create") != "ok" or r.get("verify") != "ok":
            eqs = [st["refs"] for st in s["stmts"] if st["k"] == "eq"]
            out.append({"class": None, "witness": True, "case": s,
                        "text": f"honest holder with identical values is refused ({s['suite']}, equality statements {eqs}): create={r.get('create')} verify={r.get('verify')} {r.get('msg', '')}"})
    return len(cs), out


def explore(ctx):
    res = explore_dev(ctx)
    if not ctx.get("replay"):
        n, fails = honest_equalities(ctx)
        res["evaluations"] = res.get("evaluations", 0) + n
        res["failures"] = res.get("failures", []) + fails
        res.setdefault("histograms", {})["honest_equality_shapes"] = n
        res["rule"] = res.get("rule", "") + "; plus honest Presentation::create -> verify over 3..4 credentials with the equalities written as one statement, a chain of pairwise statements or a star"
    return res


def explore_dev(ctx):
    return K.explore_generic("C09", ctx, DEVS, SHAPES, {"C09"},
                             "(2..4 credentials of one or several issuers; unequal values with the honest shared nonce, with independent nonces, with the first credential's nonce and value copied into the other proof's response slot; equality proof omitted; signature proof of a referenced statement replaced; disclosed-index padding on a referenced statement)")
