"""C09 — equality statements are accepted only for identical signed values."""
import pres_common as PC
import pres_check as K

EXTRA_VO = PC.EXTRA_VO
TRUSTED_BASE = K.TRUSTED_COMMON
ASSUMPTIONS = ["special soundness: equal responses under two challenges give equal extracted messages (theorem C09_equal_responses_equal_values); unforgeability (C01)"]

DEVS = [
    {"dev": {"k": "eq_independent_nonces"}},
    {"dev": {"k": "eq_copy_response"}},
    {"dev": {"k": "eq_unequal_shared_nonce"}},
    {"dev": {"k": "omit_pred"}, "target": "e0"},
    {"dev": {"k": "variant_under_sig", "variant": "eq"}, "target": "s1"},
    {"dev": {"k": "disc_pad_oob_first"}, "need_disclosed": 1, "target": "s1"},
]
SHAPES = [dict(n_creds=2, eq=True), dict(n_creds=3, eq=True), dict(n_creds=2, eq=True, comm=True), dict(n_creds=3, eq=True, n_claims=4), dict(n_creds=4, eq=True, n_claims=3)]


def explore(ctx):
    return K.explore_generic("C09", ctx, DEVS, SHAPES, {"C09"},
                             "(2..4 credentials of one or several issuers; unequal values with the honest shared nonce, with independent nonces, with the first credential's nonce and value copied into the other proof's response slot; equality proof omitted; signature proof of a referenced statement replaced; disclosed-index padding on a referenced statement)")
