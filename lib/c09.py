"""C09 — equality statements are accepted only for identical signed values."""
import pres_common as PC
import pres_check as K

EXTRA_VO = PC.EXTRA_VO
TRUSTED_BASE = K.TRUSTED_COMMON
ASSUMPTIONS = ["special soundness: equal responses under two challenges give equal extracted messages (theorem C09_equal_responses_equal_values); unforgeability (C01)"]

DEVS = [
    {"dev": {"k": "eq_independent_nonces"}},
    {"dev": {"k": "eq_copy_response"}},
    {"dev": {"k": "omit_pred"}, "target": "e0"},
    {"dev": {"k": "variant_under_sig", "variant": "eq"}, "target": "s1"},
    {"dev": {"k": "disc_pad_oob_first"}, "need_disclosed": 1, "target": "s1"},
]
SHAPES = [dict(n_creds=2, eq=True), dict(n_creds=3, eq=True), dict(n_creds=2, eq=True, comm=True), dict(n_creds=3, eq=True, n_claims=4)]


def unequal(s, rng_val="h:Mallory"):
    # make the LAST credential's referenced value differ
    s["creds"][-1]["claims"][1] = rng_val if s["creds"][0]["claims"][1][:2] == "h:" else "n:99"
    return s


def explore(ctx):
    import random
    base = K.scenarios_for

    def scen(pid, devs, rng, tier, shapes):
        out = base(pid, devs, rng, tier, shapes)
        extra = []
        for s in out:
            if s["dev"]["k"] in ("eq_independent_nonces", "eq_copy_response"):
                unequal(s)
            # honest prover with unequal values: shared nonce, different secrets -> responses differ -> must be rejected
        for suite in ("bbs", "ps"):
            for shape in shapes:
                s = PC.base_scenario(rng, suite, **shape)
                unequal(s)
                s["dev"] = {"k": "eq_independent_nonces", "stmt": "s0", "note": "unequal values, shared nonce"}
                s["dev"]["k"] = "eq_unequal_shared_nonce"
                extra.append(s)
        return out + extra
    K.scenarios_for = scen
    PC.MUST_REJECT["eq_unequal_shared_nonce"] = "C09"
    try:
        return K.explore_generic("C09", ctx, DEVS, SHAPES, {"C09"},
                                 "(2..3 credentials of one or several issuers; unequal values with the honest shared nonce, with independent nonces, with the first credential's nonce and value copied into the other proof's response slot; equality proof omitted; signature proof of a referenced statement replaced; disclosed-index padding on a referenced statement)")
    finally:
        K.scenarios_for = base
