"""C20 — totality: untrusted input yields an error, never a panic."""
import itertools, json, os, random, time
import common as C
import create_common as CC
import c18

EXTRA_VO = ["Exec/RunC20.vo", "Exec/RunC18.vo"]

HEADER18 = c18.HEADER
HEADER20 = """From Coq Require Import ZArith List String.
From ACV Require Import Model.Skeleton Model.SkelCreate Model.SkelBlind Exec.RunC20.
Import ListNotations. Open Scope string_scope."""

TRUSTED_BASE = [
    "Coq 8.16.1 kernel (coqc, vm_compute for case evaluation); no axioms (Print Assumptions: closed)",
    "hand-written Gallina models: coq/Model/ClaimCodec.v (claim text/byte parsers, scalar unpackers, with checked slicing and the panicking hex decoder of the scalar library as primitives) and coq/Model/Skeleton.v (control flow of Presentation::verify, the verifiers and both proofs of signature knowledge with every cryptographic test replaced by an oracle boolean; slice indexing and unsigned subtraction as checked primitives)",
    "correspondence: harness/src/ops_total.rs (structural mutation of CBOR trees of valid objects, byte-level mutation of CBOR/BARE/JSON encodings, catch_unwind around every entry point, panic location from the panic hook), harness/src/ops_codec.rs (hand-written from_bytes codecs), harness/src/ops_data.rs, lib/c20.py",
    "coq/Model/SkelCreate.v (Presentation::create, get_message_types, EqualityBuilder::commit) and coq/Model/SkelBlind.v (BlindCredentialRequest::new / verify, blind_sign_credential with context verification and BlindSignature::new, to_unblinded) in the same style; hypotheses of their theorems: unique keys in the credential map and in each equality statement's reference map, the issuer's own schema has as many claim schemas as labels",
    "modelled, not verified: the serde decoders and the hand-written byte codecs are exercised by the mutation harness only (no Coq model of their control flow in this property); third-party crates (serde_cbor, serde_bare, serde_json, bulletproofs, blstrs_plus) are opaque",
]
ASSUMPTIONS = [
    "termination: every modelled function is structurally recursive Gallina; the implementation's loops are bounded by the lengths of its inputs (observed by the harness finishing every case)",
    "a panic inside a third-party crate is visible only to the mutation harness, not to the model",
]

ALPHABET = ["u", "t", "8", ":", "h", "e", "x", "n", "m", "s", "c", "l", "r", "v", "0", "f", "-", "é"]
KINDS = {"sig": "KSig", "rev": "KRev", "mem": "KMem", "eq": "KEq", "comm": "KComm", "range": "KRange", "venc": "KVenc", "vdec": "KVdec"}

# mutation tags run in full vs sampled (1 of n)
FULL_TAGS = {"empty-container", "bytes-delete", "bytes-dup", "delete-elem", "dup-elem", "elem-of-next", "delete-key", "rename-key", "value-of-sibling", "retarget-text",
             "set-int", "flip-bool"}


def world(rng, suite, heavy=True, order=None):
    """two credentials, every statement kind; statement ids in canonical CBOR map order"""
    creds = [
        {"claims": [{"t": "r", "s": "id-0-1"}, CC.claim(rng, "h", "Alice"), CC.claim(rng, "n", 41), CC.claim(rng, "s"), CC.claim(rng, "h", "x")]},
        {"claims": [{"t": "r", "s": "id-1-1"}, CC.claim(rng, "h", "Alice"), CC.claim(rng, "n", 7)]},
    ]
    stmts = [
        {"k": "sig", "id": "a0", "cred": 0, "disclosed": [4]},
        {"k": "sig", "id": "a1", "cred": 1, "disclosed": []},
        {"k": "eq", "id": "b0", "refs": [["a0", 1], ["a1", 1]]},
        {"k": "rev", "id": "c0", "ref": "a0", "claim": 0},
        {"k": "comm", "id": "d0", "ref": "a0", "claim": 2, "gens": "hash"},
        {"k": "range", "id": "e0", "ref": "d0", "sig": "a0", "claim": 2, "lo": "0", "hi": "100"},
        {"k": "mem", "id": "f0", "ref": "a1", "claim": 2},
        {"k": "venc", "id": "g0", "ref": "a0", "claim": 3, "dec": False, "gen": "std"},
    ]
    if heavy:
        stmts += [{"k": "venc", "id": "h0", "ref": "a1", "claim": 2, "dec": True, "gen": "std"},
                  {"k": "vdec", "id": "i0", "ref": "a0", "claim": 1, "gen": "std"}]
    if order is not None:
        stmts = reorder(stmts, order, rng)
    return {"suite": suite, "seed": 1, "nonce": "0011", "creds": creds, "stmts": stmts}


def reorder(stmts, order, rng):
    """statements in another order (reversed / shuffled); ids renamed so that the canonical CBOR map order is that order"""
    st = list(stmts)
    if order == "rev":
        st.reverse()
    else:
        rng.shuffle(st)
    ren = {s["id"]: "%c%d" % (ord("a") + i, 0) for i, s in enumerate(st)}
    out = []
    for s in st:
        t = dict(s, id=ren[s["id"]])
        for k in ("ref", "sig"):
            if k in t:
                t[k] = ren[t[k]]
        if "refs" in t:
            t["refs"] = sorted([ren[r[0]], r[1]] for r in t["refs"])     # (a CBOR map again: canonical order)
        out.append(t)
    return out


def small_world(rng, suite):
    """one credential, three disclosed claims, a commitment on a hidden one (index arithmetic of the walk)"""
    creds = [{"claims": [{"t": "r", "s": "id-9"}, CC.claim(rng, "h", "Bob"), CC.claim(rng, "n", 3), CC.claim(rng, "n", 4), CC.claim(rng, "h", "y"), CC.claim(rng, "n", 5)]}]
    stmts = [{"k": "sig", "id": "a0", "cred": 0, "disclosed": [1, 3, 4]},
             {"k": "comm", "id": "b0", "ref": "a0", "claim": 5, "gens": "std"},
             {"k": "rev", "id": "c0", "ref": "a0", "claim": 0}]
    return {"suite": suite, "seed": 1, "nonce": "", "creds": creds, "stmts": stmts}


def blind_world(rng, suite):
    return {"suite": suite, "labels": ["zeta", "alpha", "mu", "beta"],
            "claims": [{"t": "r", "s": "id-1"}, CC.claim(rng, "h", "Alice"), CC.claim(rng, "n", 5), CC.claim(rng, "s")],
            "blindable": [1, 3], "hidden": [1, 3]}


class Interner:
    def __init__(self):
        self.d = {}

    def __call__(self, s):
        if s not in self.d:
            self.d[s] = len(self.d)
        return self.d[s]


def coq_verify_case(suite, a):
    """structural abstract (harness) -> Coq term for Exec.RunC20"""
    I, L = Interner(), Interner()
    b = C.cbool

    def stmt(s):
        k = s["k"]
        refs = "[" + "; ".join(f"({I(r[0])}, {int(r[1])})" for r in s.get("refs", [])) + "]"
        disclosed = "[" + "; ".join(str(L(x)) for x in s.get("disclosed", [])) + "]"
        labels = "[" + "; ".join(str(L(x)) for x in s.get("labels", [])) + "]"
        return (f"(St {I(s['key'])} {KINDS[k]} {I(s['id'])} {I(s.get('ref', ''))} {int(s.get('claim', 0))} {refs} {disclosed} "
                f"{labels} {int(s.get('keylen', 0))} {b(s.get('lo', False))} {b(s.get('hi', False))} {b(s.get('dec', False))})")

    def proof(p):
        disc = "[" + "; ".join(f"({int(i)}, {int(sc, 16)}%Z)" for i, sc in p.get("disc", [])) + "]"
        return f"(Pr {I(p['key'])} {KINDS[p['k']]} {I(p['id'])} {disc} {int(p.get('nresp', 0))} {b(p.get('has_dec', False))})"

    # indices are only compared with each other and with (small) lengths: large ones are compressed
    # order-preservingly so that no large nat numeral is ever written
    bigs = set()
    for s in a["stmts"]:
        bigs.add(int(s.get("claim", 0)))
        bigs.update(int(r[1]) for r in s.get("refs", []))
        if int(s.get("keylen", 0)) > 1000:
            return None
    for p in a["proofs"]:
        bigs.update(int(i) for i, _ in p.get("disc", []))
        if int(p.get("nresp", 0)) > 1000:
            return None
    comp = {v: 1001 + k for k, v in enumerate(sorted(x for x in bigs if x > 1000))}
    a = json.loads(json.dumps(a))
    for s in a["stmts"]:
        s["claim"] = comp.get(int(s.get("claim", 0)), int(s.get("claim", 0)))
        s["refs"] = [[r[0], comp.get(int(r[1]), int(r[1]))] for r in s.get("refs", [])]
    for p in a["proofs"]:
        p["disc"] = [[comp.get(int(i), int(i)), sc] for i, sc in p.get("disc", [])]
    stmts = "[" + "; ".join(stmt(s) for s in a["stmts"]) + "]"
    proofs = "[" + "; ".join(proof(p) for p in a["proofs"]) + "]"
    rep = "[" + "; ".join("(%d, [%s])" % (I(sid), "; ".join(f"({L(l)}, {int(sc, 16)}%Z)" for l, sc in m)) for sid, m in a["disclosed"]) + "]"
    return f"KVer {'PS' if suite == 'ps' else 'BBS'} {stmts} (Ps {proofs} {rep})"


def coq_create_case(a):
    """structural abstract of (credentials, schema) -> Coq term KCre; None when IndexMap invariants cannot be expressed"""
    I, L = Interner(), Interner()
    bigs = set()
    for s in a["stmts"]:
        bigs.add(int(s.get("claim", 0)))
        bigs.update(int(r[1]) for r in s.get("refs", []))
        if int(s.get("keylen", 0)) > 1000:
            return None
    comp = {v: 1001 + k for k, v in enumerate(sorted(x for x in bigs if x > 1000))}
    cv = lambda x: comp.get(int(x), int(x))

    def cred(c):
        if c["k"] == "sig":
            return f"({I(c['key'])}, CredSig {C.clist([C.cbool(b) for b in c['is_number']])})"
        return f"({I(c['key'])}, CredMem)"

    def stmt(s):
        refs = "[" + "; ".join(f"({I(r[0])}, {cv(r[1])})" for r in s.get("refs", [])) + "]"
        disclosed = "[" + "; ".join(str(L(x)) for x in s.get("disclosed", [])) + "]"
        labels = "[" + "; ".join(str(L(x)) for x in s.get("labels", [])) + "]"
        return (f"(Cs {I(s['key'])} {KINDS[s['k']]} {I(s['id'])} {I(s.get('ref', ''))} {I(s.get('sig', ''))} {cv(s.get('claim', 0))} "
                f"{refs} {disclosed} {labels} {int(s.get('keylen', 0))})")

    return "KCre " + C.clist([cred(c) for c in a["creds"]]) + " " + C.clist([stmt(s) for s in a["stmts"]])


def coq_blind_case(suite, a):
    """structural abstract of a blind-issuance call -> Coq term"""
    L = Interner()
    nl = lambda xs: "[" + "; ".join(str(L(x)) for x in xs) + "]"
    sc = a["schema"]
    if int(sc["nclaims"]) > 1000 or len(sc["labels"]) > 1000:
        return None
    bs = f"(Bs {nl(sc['labels'])} {nl(sc['blindable'])} {int(sc['nclaims'])})"
    if a["k"] == "request_new":
        if int(a["ngens"]) > 1000:
            return None
        return f"KReqNew {bs} {int(a['ngens'])} {nl(a['labels'])}"
    if a["k"] == "blind_sign":
        if int(a["nkey"]) > 1000 or int(a["nresp"]) > 1000:
            return None
        known = "[" + "; ".join(f"({L(l)}, {C.cbool(ok)})" for l, ok in a["known"]) + "]"
        return f"KBSign {C.cbool(suite == 'ps')} {bs} {int(a['nkey'])} {int(a['nresp'])} {nl(a['req_labels'])} {known} {C.cbool(a['has_revocation'])}"
    return f"KUnblind {bs} {nl(a['bundle_labels'])} {nl(a['blind_labels'])} {L(a['revocation_label'])}"


def select(tags, rng, sample):
    """every point of the structural tags, one in `sample` of the others"""
    idx = []
    for i, t in enumerate(tags):
        if t in FULL_TAGS or rng.randrange(sample) == 0:
            idx.append(i)
    return idx


def chunks(l, n):
    return [l[i:i + n] for i in range(0, len(l), n)]


def from_text_inputs(rng, tier):
    L = 4 if tier == "thorough" else 3
    out = []
    for n in range(0, L + 1):
        for t in itertools.product(ALPHABET, repeat=n):
            out.append("".join(t))
    pfx = ["hex:", "ut8:", "num:", "scl:", "rev:", "enm:"]
    for p in pfx:
        for n in range(0, 3):
            for t in itertools.product(ALPHABET, repeat=n):
                out.append(p + "".join(t))
    for _ in range(20000 if tier == "thorough" else 2500):
        n = rng.randrange(4, 7)
        s = "".join(rng.choice(ALPHABET) for _ in range(n))
        out.append(s)
        out.append(rng.choice(pfx) + "".join(rng.choice(ALPHABET + ["0", "1", "9", "a", "F", "g"]) for _ in range(rng.choice([0, 1, 2, 15, 16, 17, 63, 64, 65, 66]))))
    return sorted(set(out))


def explore(ctx):
    tier, seed = ctx["tier"], ctx["seed"]
    rng = random.Random(seed)
    failures, hist, samples = [], {}, []
    evaluations = 0
    nontrivial = set()
    panic_sites = {}

    def bump(k, n=1):
        hist[k] = hist.get(k, 0) + n

    def panic(part, descr, at, op, extra=None):
        at = at or ""
        cls = None
        if "blstrs_plus" in at and "/src/util.rs" in at and part.startswith("bytes:json"):
            cls = "json-hex-leaf-decoder-panics"
        # the compact BBS key with an announced message count of 2^32 or more: allocation failure (abort) or capacity overflow
        if part == "codec:bbs:cpk" and (extra or {}).get("count", 0) >= 2 ** 32 and \
                (at.startswith("PROCESS ABORT") and "memory allocation of" in at and "MessageGenerators::with_api_id" in at
                 or "raw_vec" in at and "capacity overflow" in at):
            cls = "bbs-compact-key-unbounded-message-count"
        panic_sites[at.split(" :: ")[0]] = panic_sites.get(at.split(" :: ")[0], 0) + 1
        case = {"part": part, "mutation": descr, "panic_at": at, "op": op}
        if extra:
            case.update(extra)
        failures.append({"class": cls, "witness": True, "case": case,
                         "text": f"{part}: {descr} panics at {at}"})

    # an entry point must neither unwind nor abort nor hang: a dead or silent harness process is attributed to its op
    def died_at(r):
        return f"PROCESS {r['r'].upper()} (rc={r.get('rc')}) :: " + " | ".join(l.strip() for l in (r.get("stderr") or "").splitlines() if l.strip())[:700]

    def xexec(ops, nproc=16):
        res = C.run_exec_parallel(ops, nproc=nproc, robust=True)
        for k, r in enumerate(res):
            if r.get("r") in ("abort", "timeout"):
                bump("process-" + r["r"])
                res[k] = {"r": "panic", "at": died_at(r), "results": []}
        return res

    def exec_chunk(op):
        r = C.run_exec_robust([op], per_op_timeout=1800)[0]
        if r.get("r") not in ("abort", "timeout"):
            return r
        bump("process-" + r["r"])
        results, base = [], "ok"
        for i in op["sel"]["list"]:            # narrow the chunk down to the mutation that kills the process
            r1 = C.run_exec_robust([dict(op, sel={"list": [i]})], per_op_timeout=600)[0]
            if r1.get("r") in ("abort", "timeout"):
                results.append({"i": i, "desc": f"died:{r1['r']}:mutation #{i}", "decode": "unknown", "at": died_at(r1)})
            elif r1.get("r") == "ok" and "results" in r1:
                results += r1["results"]
                base = r1.get("base", base)
        if not any(x.get("at") for x in results):   # dies only in the company of the others: report the chunk
            results.append({"i": -1, "desc": f"died:{r['r']}:chunk {op['sel']['list'][:5]}..", "decode": "unknown", "at": died_at(r)})
        return {"r": "ok", "results": results, "base": base}

    # ------------------------------------------------------------------ replay of a recorded violation
    if ctx.get("replay"):
        rec = json.load(open(ctx["replay"]))
        op = rec.get("case", {}).get("op")
        if op:
            r = C.run_exec_robust([op])[0]
            print("replay result:", json.dumps(r)[:2000])
        return {"evaluations": 1, "failures": [], "rule": "replay", "samples": [], "histograms": {}}

    T0 = time.time()
    # ------------------------------------------------------------------ part A: claim parsers and scalar unpackers
    hx = lambda b: bytes(b).hex()
    cases = []   # (kind, descr, op, coq term, payload)
    for s in from_text_inputs(rng, tier):
        b = list(s.encode())
        cases.append(("from_text", s, {"op": "d_from_text", "b": hx(b)}, f"KFromText {C.cbytes(b)}", lambda r: c18.show_claim_impl(r["c"])))
    bstrs = c18.byte_strings(rng, tier)
    for b in bstrs:
        for t in c18.CT:
            cases.append(("from_bytes", f"{t}:{hx(b)}", {"op": "d_from_bytes", "t": t, "b": hx(b)},
                          f"KFromBytes {c18.CT[t]} {C.cbytes(b)}", lambda r: c18.show_claim_impl(r["c"])))
    scal = set(c18.scalars(rng, tier))
    for top in range(0, 0x74):
        for _ in range(6 if tier == "thorough" else 2):
            z = (top << 248) | rng.getrandbits(248)
            if z < c18.R:
                scal.add(z)
    for s in sorted(scal):
        cases.append(("decode_str", "%064x" % s, {"op": "d_decode_str", "s": "%064x" % s}, f"KDecodeStr {s}", lambda r: r["b"]))
        cases.append(("decode_bytes", "%064x" % s, {"op": "d_decode_bytes", "s": "%064x" % s}, f"KDecodeBytes {s}", lambda r: r["b"]))
    implA = xexec([c[2] for c in cases])
    modelA = C.run_model("C20", HEADER18, [c[3] for c in cases], shard_size=1500, tag="data")
    for (kind, descr, op, term, payload), r, m in zip(cases, implA, modelA):
        evaluations += 1
        bump("A:" + kind)
        if r["r"] == "harness-error":
            raise C.Infra("harness error: " + str(r))
        il = c18.line_of(r, payload)
        bump("A:impl-" + r["r"])
        if r["r"] == "panic":
            panic("parser:" + kind, descr, r.get("at", ""), op)
        if il == "skip":
            continue
        if r["r"] == "ok":
            nontrivial.add(C.case_hash([kind, descr]))
        if il != m:
            failures.append({"class": None, "witness": False,
                             "text": f"correspondence model/impl broken on {kind}({descr!r}): impl={il} model={m}",
                             "case": {"kind": kind, "input": descr, "impl": il, "model": m, "coq_term": term}})
    samples += [{"part": "parser", "kind": k, "input": d, "impl": c18.line_of(r, p), "model": m}
                for (k, d, o, t, p), r, m in list(zip(cases, implA, modelA))[:: max(1, len(cases) // 4)]]

    C.log(f'[c20] part A {time.time()-T0:.0f}s')
    # ------------------------------------------------------------------ part B: structural mutation of valid objects
    sample = 3 if tier == "thorough" else 10
    jobs = []       # (part, base op)
    for suite in ("bbs", "ps"):
        wf = world(rng, suite, heavy=True)
        ws = small_world(rng, suite)
        wl = world(rng, suite, heavy=False)
        for obj in ("pres", "schema"):
            jobs.append((f"verify:{suite}:{obj}:full", dict(wf, op="f_total", target="verify", obj=obj)))
            jobs.append((f"verify:{suite}:{obj}:small", dict(ws, op="f_total", target="verify", obj=obj)))
        # the same statements in other schema orders (a statement before the one it references)
        for k, order in enumerate(["rev"] + (["shuffle"] * 3 if tier == "thorough" else [])):
            wr = world(rng, suite, heavy=False, order=order)
            jobs.append((f"verify:{suite}:pres:order{k}", dict(wr, op="f_total", target="verify", obj="pres")))
            jobs.append((f"create:{suite}:schema:order{k}", dict(wr, op="f_total", target="create", obj="schema")))
        for obj in ("schema", "creds"):
            jobs.append((f"create:{suite}:{obj}", dict(wl if tier == "quick" else wf, op="f_total", target="create", obj=obj)))
            jobs.append((f"create:{suite}:{obj}:small", dict(ws, op="f_total", target="create", obj=obj)))
        bw = blind_world(rng, suite)
        for obj in ("ipub", "request", "known", "bundle", "bclaims"):
            jobs.append((f"blind:{suite}:{obj}", dict(bw, op="f_total", target="blind", obj=obj)))
    desc = C.run_exec_parallel([dict(op, sel={"describe": True}) for _, op in jobs] * 1, nproc=16) if len(jobs) >= 64 \
        else [C.run_exec([dict(op, sel={"describe": True})])[0] for _, op in jobs]
    ops, owner = [], []
    for (part, op), d in zip(jobs, desc):
        if d.get("r") != "ok" or "tags" not in d:
            raise C.Infra(f"cannot enumerate mutation points of {part}: {json.dumps(d)[:300]}")
        sel = select(d["tags"], rng, sample if not part.endswith(":small") else max(2, sample // 3))
        bump("B:points:" + part.split(":")[0], len(d["tags"]))
        rng.shuffle(sel)        # heavy and light mutations evenly over the chunks
        for ch in chunks(sel, 100 if part.endswith(":full") else (60 if part.startswith("create") else 80)):
            ops.append(dict(op, sel={"list": ch}))
            owner.append(part)
    # one harness process per chunk, scheduled dynamically over 16 workers (chunks differ a lot in cost);
    # the expensive worlds first
    import concurrent.futures as cf
    order = sorted(range(len(ops)), key=lambda i: (0 if owner[i].endswith(":full") else 1 if owner[i].startswith("create") else 2))
    resB = [None] * len(ops)
    with cf.ThreadPoolExecutor(max_workers=16) as ex:
        for i, r in zip(order, ex.map(lambda i: exec_chunk(ops[i]), order)):
            resB[i] = r
    vterms, vmeta = [], []
    cterms, cmeta = [], []
    bterms, bmeta = [], []
    for part, op, r in zip(owner, ops, resB):
        if r.get("r") != "ok" or "results" not in r:
            raise C.Infra(f"{part}: unexpected harness answer {json.dumps(r)[:300]}")
        if part.startswith("verify") and r.get("base") != "ok":
            failures.append({"class": None, "witness": False, "text": f"{part}: the honest presentation is not accepted after a CBOR tree round trip ({r.get('base')})",
                             "case": {"part": part, "op": dict(op, sel={"list": []})}})
        suite = part.split(":")[1]
        for x in r["results"]:
            evaluations += 1
            tag = x["desc"].split(":")[1]
            bump("B:" + part.split(":")[0] + ":" + tag)
            bump("B:decode-" + x["decode"])
            one = dict(op, sel={"list": [x["i"]]})
            if x.get("at"):
                panic(part, x["desc"], x["at"], one, {"decode": x["decode"], "out": x.get("out")})
            if x["decode"] != "ok":
                continue
            bump("B:" + part.split(":")[0] + ":out-" + str(x.get("out")))
            nontrivial.add(C.case_hash([part, x["desc"]]))
            if part.startswith("verify") and "abs" in x:
                t = coq_verify_case(suite, x["abs"])
                if t is not None:
                    vterms.append(t)
                    vmeta.append((part, x, one))
            if part.startswith("blind") and x.get("abs"):
                t = coq_blind_case(suite, x["abs"])
                if t is not None:
                    bterms.append(t)
                    bmeta.append((part, x, one))
            if part.startswith("create") and "abs" in x:
                t = coq_create_case(x["abs"])
                if t is not None:
                    cterms.append(t)
                    cmeta.append((part, x, one))
    C.log(f'[c20] part B impl {time.time()-T0:.0f}s')
    # the skeleton on the same structures
    modelB = C.run_model("C20", HEADER20, vterms, shard_size=250, tag="skel") if vterms else []
    for (part, x, one), m in zip(vmeta, modelB):
        bump("B:model-" + m.strip())
        bump("B:verdicts impl=%s model=%s" % (x["out"], m.strip()))
        if m.strip() == "panic":
            failures.append({"class": None, "witness": False, "text": "the skeleton evaluates to Panic (contradicts C20_verify_total)", "case": {"op": one}})
        if m.strip() == "err" and x["out"] == "ok":
            failures.append({"class": None, "witness": False,
                             "text": f"correspondence broken: {x['desc']}: Presentation::verify accepts a structure the skeleton rejects when every cryptographic test passes",
                             "case": {"part": part, "mutation": x["desc"], "abs": x["abs"], "op": one}})
    # the creation skeleton on the (credentials, schema) structures
    modelC = C.run_model("C20", HEADER20, cterms, shard_size=250, tag="skelc") if cterms else []
    for (part, x, one), m in zip(cmeta, modelC):
        bump("B:create verdicts impl=%s model=%s" % (x["out"], m.strip()))
        if m.strip() == "panic":
            failures.append({"class": None, "witness": False, "text": "the creation skeleton evaluates to Panic (contradicts C20_create_total)", "case": {"op": one}})
        if m.strip() == "err" and x["out"] == "ok":
            failures.append({"class": None, "witness": False,
                             "text": f"correspondence broken: {x['desc']}: Presentation::create succeeds on a structure the skeleton rejects when every builder's own test passes",
                             "case": {"part": part, "mutation": x["desc"], "abs": x["abs"], "op": one}})
    # the blind-issuance skeletons
    modelD = C.run_model("C20", HEADER20, bterms, shard_size=250, tag="skelb") if bterms else []
    for (part, x, one), m in zip(bmeta, modelD):
        mv = m.strip().split(" ")[0]
        bump("B:blind %s verdicts impl=%s model=%s" % (x["abs"]["k"], x["out"], mv))
        if "panic" in m:
            failures.append({"class": None, "witness": False, "text": "a blind-issuance skeleton evaluates to Panic (contradicts the C20 blind theorems)", "case": {"op": one}})
        if mv == "err" and x["out"] == "ok":
            failures.append({"class": None, "witness": False,
                             "text": f"correspondence broken: {x['desc']}: the blind-issuance entry point succeeds on a structure the skeleton rejects when every cryptographic test passes",
                             "case": {"part": part, "mutation": x["desc"], "abs": x["abs"], "op": one}})
    for (part, x, one), m in list(zip(bmeta, modelD))[:: max(1, len(bmeta) // 3)]:
        samples.append({"part": part, "mutation": x["desc"], "impl": x["out"], "blind_skeleton_all_tests_pass": m.strip()})
    for (part, x, one), m in list(zip(cmeta, modelC))[:: max(1, len(cmeta) // 3)]:
        samples.append({"part": part, "mutation": x["desc"], "impl": x["out"], "create_skeleton_all_tests_pass": m.strip()})
    for (part, x, one), m in list(zip(vmeta, modelB))[:: max(1, len(vmeta) // 4)]:
        samples.append({"part": part, "mutation": x["desc"], "impl": x["out"], "skeleton_all_tests_pass": m.strip()})

    C.log(f'[c20] part B model {time.time()-T0:.0f}s')
    # ------------------------------------------------------------------ part C: corrupted encodings
    opsC, ownC = [], []
    stride = 2 if tier == "thorough" else 12
    for suite in ("bbs", "ps"):
        wl = world(rng, suite, heavy=False)
        for obj in ("pres", "schema", "ipub", "issuer", "cred"):
            for fmt in ("cbor", "bare", "json"):
                for k in range(4):
                    off = rng.randrange(stride)
                    opsC.append(dict(wl, op="f_total", target="bytes", obj=obj, fmt=fmt, sel={"stride": stride * 4, "offset": off * 4 + k}))
                    ownC.append(f"bytes:{fmt}:{suite}:{obj}")
    resC = xexec(opsC, nproc=16)
    for part, op, r in zip(ownC, opsC, resC):
        if r.get("r") == "panic" and str(r.get("at", "")).startswith("PROCESS"):
            panic(part, f"byte mutation stride={op['sel']}", r["at"], op)
            continue
        if r.get("r") != "ok" or "results" not in r:
            if r.get("encode") == "err" or r.get("create") == "err":
                bump("C:skipped")
                continue
            raise C.Infra(f"{part}: unexpected harness answer {json.dumps(r)[:300]}")
        for x in r["results"]:
            evaluations += 1
            bump("C:" + part.rsplit(":", 2)[0] + ":" + x["decode"])
            if x.get("at"):
                panic(part, x["desc"], x["at"], dict(op, sel={"list": [x["i"]]}))
            elif x["decode"] == "ok":
                nontrivial.add(C.case_hash([part, x["desc"]]))

    C.log(f'[c20] part C {time.time()-T0:.0f}s')
    # ------------------------------------------------------------------ part D: hand-written byte codecs
    opsD, ownD = [], []
    for suite in ("bbs", "ps"):
        spec = {"op": "d_codec_samples", "suite": suite,
                "claims": [{"t": "r", "s": "id-1"}, CC.claim(rng, "h", "Alice"), CC.claim(rng, "n", 5), CC.claim(rng, "s")],
                "disclosed": [1], "blind": [1, 3]}
        s = C.run_exec([spec])[0]
        if s.get("r") != "ok":
            raise C.Infra("codec samples: " + json.dumps(s)[:300])
        for name, v in s["samples"].items():
            if "b" not in v:
                panic("codec-encode:" + suite + ":" + name, "to_bytes", v.get("at", ""), spec)
                continue
            b = bytes.fromhex(v["b"])
            muts = [b, b"", b[:1]]
            for n in sorted(set(list(range(0, min(len(b), 200))) + list(range(len(b) - 40, len(b) + 1)))):
                if 0 <= n <= len(b):
                    muts.append(b[:n])
            muts += [b + b"\x00", b + b[-32:], b + b[-48:], b[32:], b[48:], b"\xff" * len(b), b"\x00" * len(b)]
            for _ in range(300 if tier == "thorough" else 60):
                m = bytearray(b)
                for _ in range(rng.choice([1, 1, 2, 5])):
                    k = rng.randrange(4)
                    if k == 0 and m:
                        m[rng.randrange(len(m))] = rng.choice([0, 1, 0x7f, 0x80, 0xff, rng.randrange(256)])
                    elif k == 1 and m:
                        del m[rng.randrange(len(m))]
                    elif k == 2:
                        m.insert(rng.randrange(len(m) + 1), rng.randrange(256))
                    elif m:
                        # overwrite a length field candidate (4 big-endian bytes) with a large / small count
                        p = rng.randrange(max(1, len(m) - 3))
                        m[p:p + 4] = rng.choice([b"\xff\xff\xff\xff", b"\x00\x00\x00\x00", b"\x00\x00\x00\x01", b"\x7f\xff\xff\xff", b"\x00\x01\x00\x00"])
                muts.append(bytes(m))
            for n in (16, 31, 32, 33, 48, 96, 112, 128, 144, 176, 240, 304):
                muts.append(bytes(rng.randrange(256) for _ in range(n)))
            for mb in muts:
                opsD.append({"op": "d_codec_dec", "suite": suite, "codec": name, "b": mb.hex()})
                ownD.append(f"codec:{suite}:{name}")
    # the compact BBS public key (point, announced number of messages) expanded by the receiver: every small count, powers of
    # two up to 2^13, and counts no honest key has
    cpk = C.run_exec([{"op": "d_codec_cpk", "n": 3}])[0]
    if cpk.get("r") != "ok":
        raise C.Infra("d_codec_cpk: " + json.dumps(cpk)[:300])
    cb = bytes.fromhex(cpk["b"])
    counts = list(range(0, 6)) + [2 ** k for k in range(3, 14)] + [2 ** 32, 2 ** 40, 2 ** 47, 2 ** 56, 2 ** 62, 2 ** 63, 2 ** 64 - 1]
    cpk_count = {}
    for n in counts:
        b = cb[:96] + n.to_bytes(8, "little")
        opsD.append({"op": "d_codec_dec", "suite": "bbs", "codec": "cpk", "b": b.hex()})
        ownD.append("codec:bbs:cpk")
        cpk_count[b.hex()] = n
    for mb in [cb[:-1], cb[:96], cb + b"\x00", b"", bytes(96) + (3).to_bytes(8, "little"), bytes([0xc0]) + bytes(95) + (3).to_bytes(8, "little"),
               bytes(rng.randrange(256) for _ in range(104))]:
        opsD.append({"op": "d_codec_dec", "suite": "bbs", "codec": "cpk", "b": mb.hex()})
        ownD.append("codec:bbs:cpk")
    resD = xexec(opsD, nproc=16)
    for part, op, r in zip(ownD, opsD, resD):
        evaluations += 1
        bump("D:" + part + ":" + r["r"])
        if r["r"] == "panic":
            panic(part, f"from_bytes({len(op['b']) // 2} bytes)" + (f" announcing {cpk_count[op['b']]} messages, then decompress" if op["b"] in cpk_count else ""),
                  r.get("at", ""), op, {"count": cpk_count.get(op["b"], -1)})
        elif r["r"] == "ok":
            nontrivial.add(C.case_hash([part, op["b"]]))

    return {
        "evaluations": evaluations,
        "distinct_nontrivial": len(nontrivial),
        "rule": "cases = (entry point, input): A all strings of length 0..%d over an 18-symbol alphabet, prefixed and random longer strings, byte strings of length 0..33 for every claim type, scalars with every top byte (parsers/unpackers, compared with the model's full result); B one structural mutation (delete/duplicate/reorder element, delete/rename key, value of a sibling, retarget text, set integer, flip flag: all points; retype, set bytes: 1 in %d) of the CBOR tree of a presentation / presentation schema / credential map / issuer public data / blind request / known claims / blind bundle / blind claims, both suites, decoded and passed to verify, create, blind_sign_credential, to_unblinded, BlindCredentialRequest::new and the decryption methods; C byte-level mutations of CBOR, BARE and JSON encodings of five object kinds; D arbitrary and mutated bytes for every hand-written from_bytes, and the compact BBS public key with every announced message count from a boundary list, expanded by the receiver. distinct by hash of (part, input); non-trivial = decoded/parsed successfully so that the entry point itself ran" % (4 if tier == "thorough" else 3, sample),
        "samples": samples,
        "histograms": {"counts": hist, "panic_sites": panic_sites},
        "failures": failures,
        "exhaustive": False,
        "exhaustive_note": "from_text: every string of length 0..%d over the 18-symbol alphabet {u,t,8,:,h,e,x,n,m,s,c,l,r,v,0,f,-,é}" % (4 if tier == "thorough" else 3),
    }
