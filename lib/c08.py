"""C08 — range statements hold exactly when lower <= v <= upper over all of i64."""
import random
import common as C

MIN, MAX = -2**63, 2**63 - 1
EXTRA_VO = ["Exec/RunC08.vo"]
HEADER = """From Coq Require Import ZArith List String.
From ACV Require Import Model.Range Exec.RunC08.
Import ListNotations. Open Scope Z_scope. Open Scope string_scope."""

TRUSTED_BASE = [
    "Coq 8.16.1 kernel; Print Assumptions of every C08 theorem: closed under the global context",
    "hand-written model coq/Model/{Ints,Range}.v of src/utils.rs, src/presentation/range.rs, src/verifier/range.rs",
    "bulletproofs-bls is an ideal 64-bit range proof: satisfiable on a commitment iff the committed field element is congruent to some k in [0,2^64) (soundness/completeness of the third-party crate and binding of Pedersen commitments assumed)",
    "correspondence: harness/src/ops_flow.rs f_range (Presentation::create / verify, BBS and PS), lib/c08.py",
]
ASSUMPTIONS = [
    "commitment statement bound to the signed claim (C05) and unforgeability (C01) are separate properties",
    "deviating-holder cases (wrapped offsets, substitute commitment) are exercised by the external prover of the protocol checks; here the verifier-side arithmetic is covered by theorem C08_verifier_iff",
]


def lattice(rng, tier):
    pts = [MIN, MIN + 1, -2**32, -2, -1, 0, 1, 2, 2**32, MAX - 1, MAX]
    cases = set()
    opt = lambda x: x
    # all four bound patterns over the lattice, v at bound-1, bound, bound+1 and lattice points
    for lo in pts + [None]:
        for hi in pts + [None]:
            if lo is None and hi is None:
                continue
            vs = set()
            for b in (lo, hi):
                if b is not None:
                    for d in (-1, 0, 1):
                        if MIN <= b + d <= MAX:
                            vs.add(b + d)
            if tier == "thorough":
                vs.update(pts)
            else:
                vs.update(rng.sample(pts, 2))
            for v in vs:
                cases.add((v, lo, hi))
    n_rand = 3000 if tier == "thorough" else 150
    for _ in range(n_rand):
        k = rng.randrange(4)
        v = rng.randrange(MIN, MAX + 1) if rng.random() < 0.5 else rng.randrange(-1000, 1000)
        span = 2**rng.randrange(1, 64)
        lo = max(MIN, v - rng.randrange(span)) if k in (0, 1) else None
        hi = min(MAX, v + rng.randrange(span)) if k in (0, 2) else None
        if k == 3:   # out of range at random distance
            lo = min(MAX, v + 1 + rng.randrange(span)) if rng.random() < 0.5 else None
            hi = max(MIN, v - 1 - rng.randrange(span)) if lo is None else None
        if lo is None and hi is None:
            continue
        cases.add((v, lo, hi))
    cases = sorted(cases, key=lambda c: (c[0], -2**70 if c[1] is None else c[1], -2**70 if c[2] is None else c[2]))
    if tier != "thorough" and len(cases) > 700:
        keep = rng.sample(cases, 700)
        cases = sorted(set(keep), key=lambda c: str(c))
    return cases


def copt(o):
    return "None" if o is None else f"(Some {C.cz(o)})"


def explore(ctx):
    tier, seed = ctx["tier"], ctx["seed"]
    rng = random.Random(seed)
    cases = lattice(rng, tier)
    ops = []
    for i, (v, lo, hi) in enumerate(cases):
        ops.append({"op": "f_range", "suite": "ps" if i % 2 else "bbs", "v": str(v),
                    "lo": None if lo is None else str(lo), "hi": None if hi is None else str(hi),
                    "nonce": ("%032x" % rng.getrandbits(128)) if i % 7 else "",
                    "extra": i % 3, "disclose": bool(i % 5)})
    impl = C.run_exec_parallel(ops, nproc=16)
    model = C.run_model("C08", HEADER, [f"({C.cz(v)}, {copt(lo)}, {copt(hi)})" for v, lo, hi in cases], shard_size=200)
    failures, hist = [], {"in_range": 0, "out_of_range": 0, "lower_only": 0, "upper_only": 0, "both": 0, "bbs": 0, "ps": 0}
    nontrivial = set()
    samples = []
    for (v, lo, hi), op, r, m in zip(cases, ops, impl, model):
        if r["r"] != "ok":
            outcome = r["r"]
        elif r["issue"] != "ok":
            outcome = "issue-err"
        elif r["create"] != "ok":
            outcome = "create-err"
        else:
            outcome = f"create-ok verify-{r['verify']} verify_rt-{r['verify_rt']}"
        inr = (MIN if lo is None else lo) <= v <= (MAX if hi is None else hi)
        hist["in_range" if inr else "out_of_range"] += 1
        hist["both" if (lo is not None and hi is not None) else ("lower_only" if lo is not None else "upper_only")] += 1
        hist[op["suite"]] += 1
        m_release = m.split(" | ")[0]
        model_create_ok = m_release.startswith("ok")
        expect = "create-ok verify-ok verify_rt-ok" if model_create_ok else "create-err"
        case = {"v": v, "lower": lo, "upper": hi, "suite": op["suite"], "extra_claims": op["extra"],
                "impl": outcome, "model": m}
        if len(samples) < 10 and (hash((v, lo, hi)) % 50 == 0 or len(samples) < 3):
            samples.append(case)
        nontrivial.add((v, lo, hi))
        # the model's verdict is proved equal to the property's reading (C08_create_iff); double check here
        if model_create_ok != inr:
            failures.append({"class": None, "witness": False, "text": "model disagrees with lower<=v<=upper (theorem C08_create_iff contradicted?)", "case": case})
        if r.get("r") == "ok" and r.get("create") == "ok" and r.get("verify_swapped") != "err":
            failures.append({"class": None, "witness": True, "text": f"a presentation carrying the range proof of ANOTHER presentation (other commitments) is accepted: the bulletproof is not examined (v={v} lower={lo} upper={hi} suite={op['suite']}: {r.get('verify_swapped')})", "case": case})
        if outcome != expect:
            # the disagreeing case is itself the witness: in-range value refused / not accepted, or out-of-range value presented
            what = ("in-range value: honest presentation not created/accepted" if inr
                    else "out-of-range value: presentation created" + (" and accepted" if "verify-ok" in outcome else ""))
            failures.append({"class": None, "witness": True, "text": f"{what}: v={v} lower={lo} upper={hi} suite={op['suite']} impl={outcome} model={m}", "case": case})
    # thorough: the same cases on the library built with overflow checks and debug assertions (what a debug
    # build of credx does), against the model's Debug column
    n_oc = 0
    if tier == "thorough":
        with C.overflow_checked():
            impl_oc = C.run_exec_parallel(ops, nproc=16)
        for (v, lo, hi), op, r, m in zip(cases, ops, impl_oc, model):
            m_debug = m.split(" | ")[1]
            expect = "create-ok verify-ok verify_rt-ok" if m_debug.startswith("ok") else ("panic" if m_debug.startswith("panic") else "create-err")
            if r["r"] != "ok":
                outcome = r["r"]
            elif r["issue"] != "ok":
                outcome = "issue-err"
            elif r["create"] != "ok":
                outcome = "create-err" if r["create"] != "panic" else "panic"
            else:
                outcome = f"create-ok verify-{r['verify']} verify_rt-{r['verify_rt']}"
            n_oc += 1
            hist["overflow_checked:" + outcome.split()[0]] = hist.get("overflow_checked:" + outcome.split()[0], 0) + 1
            if outcome != expect:
                failures.append({"class": None, "witness": True, "text": f"overflow-checked build: v={v} lower={lo} upper={hi} suite={op['suite']} impl={outcome} model(debug)={m_debug}",
                                 "case": {"v": v, "lower": lo, "upper": hi, "suite": op["suite"], "profile": "oc", "impl": outcome, "model": m}})
    return {
        "evaluations": len(cases) + n_oc,
        "distinct_nontrivial": len(nontrivial),
        "rule": "cases = (v, lower, upper) triples: product of the boundary lattice {MIN,MIN+1,-2^32,-2,-1,0,1,2,2^32,MAX-1,MAX} for both bounds in all four presence patterns with v at bound-1, bound, bound+1 (plus lattice points), and random triples in/out of range; each runs Issuer::sign_credential, Presentation::create, verify, verify after a BARE round trip and verify with the range proof of a second presentation swapped in (must fail), alternating BBS/PS, varying claim position and disclosure; distinct by triple; every case is non-trivial (reaches create on both sides)",
        "samples": samples,
        "histograms": hist,
        "failures": failures,
        "exhaustive": False,
    }
