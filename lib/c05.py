"""C05 — predicate proofs are bound to the referenced signed claim."""
import pres_common as PC
import pres_check as K

EXTRA_VO = PC.EXTRA_VO
TRUSTED_BASE = K.TRUSTED_COMMON + [
    "modelled predicate kinds: commitment, equality and revocation (the accumulator sub-protocol run by the library's own MembershipProofCommitting on an element, witness and blinder of the external holder's choosing; its algebra is C06's); set membership likewise, on the verifier's own accumulator; verifiable encryption: C10",
]
ASSUMPTIONS = ["special soundness turns equal responses into equal extracted values (C01/C17 theorems); binding of Pedersen commitments (discrete log)"]

DEVS = [
    {"dev": {"k": "comm_subst_shared"}, "target": "c0"},
    {"dev": {"k": "comm_subst_independent"}, "target": "c0"},
    {"dev": {"k": "omit_pred"}, "target": "c0"},
    # over-long response vectors: the index -> response pairing (and, in BBS, the challenge term) rests on the exact count
    {"dev": {"k": "resp_len", "delta": 1}}, {"dev": {"k": "resp_len", "delta": 2}},
    {"dev": {"k": "tamper_extend_minus_c"}}, {"dev": {"k": "tamper_extend_zero"}},
    {"dev": {"k": "rev_other_element_shared"}, "target": "r0"},
    {"dev": {"k": "rev_other_element_independent"}, "target": "r0"},
    {"dev": {"k": "omit_pred"}, "target": "r0"},
    {"dev": {"k": "rev_other_element_shared"}, "target": "m0"},
    {"dev": {"k": "rev_other_element_independent"}, "target": "m0"},
    {"dev": {"k": "omit_pred"}, "target": "m0"},
    {"dev": {"k": "reorder_shift_exploit"}, "target": "c0", "need_disclosed": 2},
    {"dev": {"k": "reorder_shift_exploit"}, "target": "c0", "need_disclosed": 3},
    {"dev": {"k": "disc_pad_oob_first"}, "need_disclosed": 1},
    {"dev": {"k": "disc_reverse"}, "need_disclosed": 2},
    {"dev": {"k": "reported_reorder"}, "need_disclosed": 2},
    {"dev": {"k": "reported_reorder"}, "need_disclosed": 3},
    {"dev": {"k": "disc_dup"}, "need_disclosed": 1},
    {"dev": {"k": "disc_withhold"}, "need_disclosed": 1},
    {"dev": {"k": "inner_id_other", "other": "zz"}},
    {"dev": {"k": "wrong_secret", "slot": 0}},
    {"dev": {"k": "eq_independent_nonces"}},
    {"dev": {"k": "eq_copy_response"}},
    {"dev": {"k": "eq_unequal_shared_nonce"}},
]
SHAPES = [dict(n_creds=1, comm=True, n_claims=5), dict(n_creds=1, comm=True, n_claims=4), dict(n_creds=2, eq=True, comm=True, n_claims=5), dict(n_creds=1, comm=True, n_claims=3, disclosed=[]), dict(n_creds=3, eq=True, comm=True, n_claims=4), dict(n_creds=4, eq=True, n_claims=3),
          dict(n_creds=2, rev=True, one_issuer=True, n_claims=4), dict(n_creds=3, rev=True, one_issuer=True, comm=True, n_claims=4), dict(n_creds=1, rev=True, n_claims=3),
          dict(n_creds=1, mem=True, n_claims=4), dict(n_creds=2, mem=True, rev=True, comm=True, one_issuer=True, n_claims=5)]


def explore(ctx):
    return K.explore_generic("C05", ctx, DEVS, SHAPES, {"C05"},
                             "(accumulator sub-protocol of a revocation statement run on another credential's identifier and handle, of a set-membership statement run on another element of the set, with the shared and with an independent blinder, commitment sub-protocol run on a substitute value with the shared and with an independent nonce, predicate proof omitted, disclosed-index list padded / reversed / aliased / shortened so that the index->slot walk would shift, signature proof with a foreign inner id, wrong secret)")
