"""C15 — issuance signs exactly schema-conformant claims and yields valid credentials."""
import json, random, re
import common as C

EXTRA_VO = ["Exec/RunC15.vo"]
HEADER = """From Coq Require Import ZArith NArith List String.
From ACV Require Import Model.Res Model.Ints Model.Bytes Model.ClaimCodec Model.Registry Model.Issuance Exec.RunC15.
Import ListNotations. Open Scope Z_scope."""

TRUSTED_BASE = [
    "Coq 8.16.1 kernel; Print Assumptions of every C15 theorem: closed under the global context",
    "hand-written model coq/Model/Issuance.v of src/issuer.rs:104-175, src/claim/validator.rs:72-107, src/credential/schema.rs:38-79,142-151 (on top of Model/ClaimCodec.v and Model/Registry.v)",
    "regex matching and UTF-8 validity are parameters of the theorems (any functions); in executed cases the regex answers come from the regex crate evaluated independently by the harness and UTF-8 validity from Exec/Utf8.v",
    "validity of the returned signature / handle: theorems C17 / C13 (exponent model); in executed cases checked on the implementation (Signature::verify, MembershipWitness::verify)",
    "correspondence: harness/src/ops_issue.rs, lib/c15.py",
]
ASSUMPTIONS = ["Signature::create succeeds on conformant input (fails only for an invalid key or x+e=0)"]

I64MIN, I64MAX = -2**63, 2**63 - 1
REGEXES = ["^[a-z]+$", "^\\d{3}$", ".*", "^$", "a+b", "^[A-Z][a-z]* [A-Z][a-z]*$", "^id-"]


def hx(b):
    return bytes(b).hex()


def gen_claim(rng, t):
    if t == "h":
        k = rng.random()
        if k < 0.1:
            v = bytes([0xff, 0xfe, rng.randrange(256)])          # not UTF-8
        elif k < 0.2:
            v = b""
        else:
            v = rng.choice([b"abc", b"John Doe", b"123", b"aab", b"id-7", "é".encode(), ("é" * 5).encode(), b"x" * rng.randrange(1, 40)])
        return {"t": "h", "hex": hx(v), "pf": rng.random() < 0.5}
    if t == "n":
        return {"t": "n", "v": str(rng.choice([0, 1, -1, 41, I64MIN, I64MAX, I64MIN + 1, I64MAX - 1, rng.randrange(-1000, 1000), rng.randrange(I64MIN, I64MAX)]))}
    if t == "s":
        return {"t": "s", "hex": "%064x" % rng.randrange(0, 2**250)}
    if t == "r":
        # identifiers are byte strings: some whose byte length and character count differ
        return {"t": "r", "s": rng.choice(["id-1", "91742856-6eda-45fb-a709-d22ebb5ec8a5", "", "abc", "x" * 20, "é" * 8, "id-é", "日本語"])}
    return {"t": "e", "dst": rng.choice(["color", "", "size"]), "v": rng.randrange(0, 5), "total": rng.choice([5, 1, 256, 70000])}


def clen(c):
    return len(bytes.fromhex(c["hex"])) if c["t"] == "h" else len(c["s"].encode())


def gen_validator(rng, c, applicable=True, satisfied=True):
    t = c["t"]
    kinds = {"h": ["len", "regex", "anyone"], "r": ["len", "regex", "anyone"], "n": ["range", "anyone"], "s": ["anyone"], "e": ["anyone"]}[t]
    if not applicable:
        kinds = [k for k in ["len", "range", "regex"] if k not in kinds] or ["range"]
    k = rng.choice(kinds)
    if k == "len":
        L = clen(c) if t in ("h", "r") else 3
        if satisfied:
            mn = rng.choice([None, 0, L, max(0, L - 1)])
            mx = rng.choice([None, L, L + 1, 2**64 - 1])
        else:
            mn, mx = rng.choice([(L + 1, None), (None, L - 1 if L > 0 else None), (L + 1, L + 5)])
            if mn is None and mx is None:
                mn = L + 1
        return {"k": "len", "min": mn, "max": mx}
    if k == "range":
        v = int(c["v"]) if t == "n" else 0
        if satisfied:
            mn = rng.choice([None, v, v - 1 if v > I64MIN else v, I64MIN])
            mx = rng.choice([None, v, v + 1 if v < I64MAX else v, I64MAX])
        else:
            if v < I64MAX and rng.random() < 0.5:
                mn, mx = v + 1, None
            elif v > I64MIN:
                mn, mx = None, v - 1
            else:
                mn, mx = v + 1, None
        return {"k": "range", "min": None if mn is None else str(mn), "max": None if mx is None else str(mx)}
    if k == "regex":
        return {"k": "regex", "rx": rng.choice(REGEXES)}
    others = [gen_claim(rng, rng.choice("hnsre")) for _ in range(rng.randrange(0, 3))]
    if satisfied:
        others.insert(rng.randrange(len(others) + 1), dict(c))
    elif t == "h" and rng.random() < 0.5:
        o = dict(c)
        o["pf"] = not c["pf"]            # differs only in the print-friendly flag
        others.append(o)
    return {"k": "anyone", "claims": others}


def gen_case(rng, i):
    n = rng.randrange(1, 7)
    types = [rng.choice("hhnnsre") for _ in range(n)]
    mode = rng.choice(["ok", "ok", "ok", "norev", "tworev", "len-", "len+", "wrongtype", "violate", "inapplicable", "revoked", "active"])
    # exactly one revocation claim by default
    types = [t if t != "r" else "h" for t in types]
    rp = rng.randrange(n)
    types[rp] = "r"
    if mode == "norev":
        types[rp] = "h"
    if mode == "tworev" and n >= 2:
        q = rng.choice([j for j in range(n) if j != rp])
        types[q] = "r"
    claims = [gen_claim(rng, t) for t in types]
    schema = []
    for j, (t, c) in enumerate(zip(types, claims)):
        vs = [gen_validator(rng, c) for _ in range(rng.choice([0, 0, 1, 1, 2]))]
        schema.append({"t": t, "validators": vs})
    if mode == "violate":
        j = rng.randrange(n)
        schema[j]["validators"].insert(rng.randrange(len(schema[j]["validators"]) + 1), gen_validator(rng, claims[j], satisfied=False))
    if mode == "inapplicable":
        j = rng.randrange(n)
        schema[j]["validators"].insert(rng.randrange(len(schema[j]["validators"]) + 1), gen_validator(rng, claims[j], applicable=False))
    if mode == "wrongtype":
        j = rng.randrange(n)
        other = rng.choice([t for t in "hnsre" if t != types[j]])
        claims[j] = gen_claim(rng, other)
    if mode == "len-":
        claims = claims[:-1]
    if mode == "len+":
        claims = claims + [gen_claim(rng, rng.choice("hn"))]
    state = {"revoked": 2, "active": 1}.get(mode, rng.choice([0, 0, 0, 1, 2]))
    return {"op": "f_issue", "suite": "ps" if i % 2 else "bbs", "schema": schema, "claims": claims, "state": state, "mode": mode}


def coq_bytes(b):
    return "[" + ";".join(str(x) for x in b) + "]"


def coq_claim(c):
    t = c["t"]
    if t == "h":
        return f"(CHashed {coq_bytes(bytes.fromhex(c['hex']))} {C.cbool(c['pf'])})"
    if t == "n":
        return f"(CNumber {C.cz(c['v'])})"
    if t == "s":
        return f"(CScalar {int(c['hex'], 16)})"
    if t == "r":
        return f"(CRevocation {coq_bytes(c['s'].encode())})"
    return f"(CEnum {coq_bytes(c['dst'].encode())} {c['v']} {c['total']})"


CT = {"h": "THashed", "n": "TNumber", "s": "TScalar", "r": "TRevocation", "e": "TEnumeration"}


def oz(x):
    return "None" if x is None else f"(Some {C.cz(x)})"


def coq_case(case, rx):
    rid = 0
    sch = []
    for s in case["schema"]:
        vs = []
        for v in s["validators"]:
            if v["k"] == "len":
                vs.append(f"VLength {oz(v['min'])} {oz(v['max'])}")
            elif v["k"] == "range":
                vs.append(f"VRange {oz(v['min'])} {oz(v['max'])}")
            elif v["k"] == "regex":
                vs.append(f"VRegex {rid}%nat")
                rid += 1
            else:
                vs.append("VAnyOne [" + ";".join(coq_claim(c) for c in v["claims"]) + "]")
        sch.append(f"mkCS {CT[s['t']]} [" + ";".join(vs) + "]")
    table = "[" + ";".join(f"({k}%nat,{C.cbool(b)})" for k, b in rx) + "]"
    return f"mkI [{';'.join(sch)}] {case['state']}%nat [{';'.join(coq_claim(c) for c in case['claims'])}] {table}"


def explore(ctx):
    tier, seed = ctx["tier"], ctx["seed"]
    rng = random.Random(seed)
    n = 40000 if tier == "thorough" else 4000
    cases = [gen_case(rng, i) for i in range(n)]
    if ctx.get("replay"):
        rp = json.load(open(ctx["replay"]))
        if "schema" in rp.get("case", {}):
            cases = [dict(rp["case"], blind=False)] * 3
    impl = C.run_exec_parallel(cases, nproc=16)
    terms, idx = [], []
    failures, samples = [], []
    hist = {"modes": {}, "impl": {}, "validators": {}, "types": {}}
    for i, (c, r) in enumerate(zip(cases, impl)):
        if r.get("r") != "ok" or "impl" not in r:
            failures.append({"class": None, "witness": False, "text": f"harness failure {json.dumps(r)[:200]}", "case": c})
            continue
        terms.append(coq_case(c, r["rx"]))
        idx.append(i)
    model = C.run_model("C15", HEADER, terms, shard_size=max(50, len(terms) // 32 + 1), timeout=1800)
    distinct = set()
    for i, m in zip(idx, model):
        c, r = cases[i], impl[i]
        hist["modes"][c["mode"]] = hist["modes"].get(c["mode"], 0) + 1
        hist["impl"][r["impl"]] = hist["impl"].get(r["impl"], 0) + 1
        for s in c["schema"]:
            hist["types"][s["t"]] = hist["types"].get(s["t"], 0) + 1
            for v in s["validators"]:
                hist["validators"][v["k"]] = hist["validators"].get(v["k"], 0) + 1
        distinct.add(C.case_hash([c["schema"], c["claims"], c["state"]]))
        if len(samples) < 6 and rng.random() < 0.003:
            samples.append({"schema": c["schema"], "claims": c["claims"], "state": c["state"], "impl": r["impl"], "model": m})
        probs = []
        if r["impl"] == "ok":
            for k in ("sig_ok", "handle_ok", "recorded", "claims_same", "value_same", "rev_index_ok"):
                if not r.get(k):
                    probs.append(f"issued credential: {k} is false")
        if r["impl"] == "err" and not r.get("unchanged", True):
            probs.append("sign_credential returned an error but changed the registry")
        if r["impl"] == "panic":
            probs.append("sign_credential panicked")
        if probs:
            failures.append({"class": None, "witness": True, "text": "; ".join(probs) + f" (mode {c['mode']}, model {m})", "case": c})
        elif r["impl"] != m:
            # the model's decision is proved equal to the specification (C15_sign_decision): a disagreement is the failing input
            what = "issuer SIGNED a vector the specification refuses" if r["impl"] == "ok" else "issuer REFUSED a conformant vector"
            failures.append({"class": None, "witness": True, "text": f"{what}: impl={r['impl']} model={m} mode={c['mode']}", "case": c})
    # ---- the same vectors through blind issuance (the issuer's own claims get the same per-claim checks)
    bsel = [i for i in idx if i % 3 == 0]
    bops = [dict(cases[i], blind=True) for i in bsel]
    bimpl = C.run_exec_parallel(bops, nproc=16)
    bterms = [coq_case(cases[i], r.get("rx", [])) for i, r in zip(bsel, bimpl)]
    bmodel = C.run_model("C15", HEADER, bterms, runner="run_blinds", shard_size=max(50, len(bterms) // 16 + 1), timeout=1800, tag="blind")
    hist["blind_impl"] = {}
    for i, op, r, m in zip(bsel, bops, bimpl, bmodel):
        if r.get("r") != "ok" or "impl" not in r:
            failures.append({"class": None, "witness": False, "text": f"harness failure (blind) {json.dumps(r)[:200]}", "case": op})
            continue
        key = f"{cases[i]['mode']}:{r['impl']}"
        hist["blind_impl"][key] = hist["blind_impl"].get(key, 0) + 1
        probs = []
        if r["impl"] == "ok":
            if r.get("unblind"):
                probs.append(f"blind credential does not unblind: {r['unblind']}")
            for k in ("sig_ok", "handle_ok", "recorded", "claims_same", "value_same", "rev_index_ok"):
                if not r.get("unblind") and not r.get(k):
                    probs.append(f"blind-issued credential: {k} is false")
        if r["impl"] == "err" and not r.get("unchanged", True):
            probs.append("blind_sign_credential returned an error but changed the registry")
        if r["impl"] == "panic":
            probs.append("blind_sign_credential panicked")
        if probs:
            failures.append({"class": None, "witness": True, "text": "; ".join(probs) + f" (mode {cases[i]['mode']}, model {m})", "case": op})
        elif r["impl"] != m:
            what = "issuer BLIND-SIGNED own claims the specification refuses" if r["impl"] == "ok" else "issuer REFUSED to blind-sign conformant own claims"
            failures.append({"class": None, "witness": True, "text": f"{what}: impl={r['impl']} model={m} mode={cases[i]['mode']}", "case": op})
    # schema construction
    sch_cases = []
    labs = ["a", "b", "c", ""]
    for k in range(0, 4):
        for _ in range(60 if tier == "quick" else 400):
            labels = [rng.choice(labs) for _ in range(k)]
            blind = [rng.choice(labs + ["zz"]) for _ in range(rng.randrange(0, 3))]
            sch_cases.append({"op": "f_schema_new", "labels": labels, "blind": blind})
    simpl = C.run_exec_parallel(sch_cases, nproc=8)
    lab_id = {"a": 1, "b": 2, "c": 3, "": 4, "zz": 5}
    smodel = C.run_model("C15", HEADER + "\nOpen Scope N_scope.", ["(([" + ";".join(str(lab_id[x]) for x in s["labels"]) + "] : list N), ([" + ";".join(str(lab_id[x]) for x in s["blind"]) + "] : list N))" for s in sch_cases],
                         runner="run_schemas", shard_size=400, tag="schemas")
    for s, r, m in zip(sch_cases, simpl, smodel):
        if r.get("impl") != m:
            failures.append({"class": None, "witness": True, "text": f"CredentialSchema::new: impl={r.get('impl')} model={m} labels={s['labels']} blind={s['blind']}", "case": s})
    return {
        "evaluations": len(cases) + len(bops) + len(sch_cases),
        "distinct_nontrivial": len(distinct),
        "rule": "cases = (credential schema of 1..6 claims over all claim types with 0..2 validators each — length / range with absent, tight and extreme bounds, regexes, any-of lists, also attached to inapplicable types —, claim vector, registry state fresh / identifier active / identifier revoked): conformant vectors and mutated ones (no / two revocation claims, length -1/+1, wrong type at a position, violated validator, inapplicable validator, non-UTF-8 bytes); plus CredentialSchema::new over label / blindable lists with duplicates, empties and unknown labels; BBS and PS; compared with the Coq decision function; every third vector also as the issuer's own part of a blind issuance (one more, hidden, claim in the schema) against the Coq decision function of blind_sign_credential; returned credentials checked (signature, handle, bookkeeping); distinct by (schema, claims, state)",
        "samples": samples or [{"schema": cases[0]["schema"], "claims": cases[0]["claims"]}],
        "histograms": hist,
        "failures": failures,
        "exhaustive": False,
    }
