#!/usr/bin/env python3
"""lanes.py <nlanes> <seed>:<Cxx>[,<Cxx>...] ...   — runs seeded patches through lib/lane.sh on parallel lanes,
prints one line per (seed, check) and records the checks that reported a VIOLATION in seeded/<seed>/meta.json."""
import json, os, subprocess, sys, queue, threading
n = int(sys.argv[1])
jobs = queue.Queue()
for a in sys.argv[2:]:
    seed, pids = a.split(":")
    jobs.put((seed, pids.split(",")))
lock = threading.Lock()
def worker(k):
    while True:
        try:
            seed, pids = jobs.get_nowait()
        except queue.Empty:
            return
        p = subprocess.run(["bash", "/verif/lib/lane.sh", str(k), seed] + pids, capture_output=True, text=True)
        lines = [l for l in p.stdout.split("\n") if " :: " in l]
        with lock:
            for l in lines:
                print(l, flush=True)
            det = [l.split(" :: ")[0].split()[1] for l in lines if "VIOLATION" in l]
            mp = f"/verif/seeded/{seed}/meta.json"
            if os.path.exists(mp):
                m = json.load(open(mp))
                old = [x for x in m.get("detected_by", []) if x.split()[0] not in pids]
                m["detected_by"] = sorted(set(old + det))
                m["missed_by"] = sorted(set(m.get("missed_by", [])) - set(det) | {l.split(" :: ")[0].split()[1] for l in lines if " OK " in l or l.split(" :: ")[1].startswith("OK")})
                json.dump(m, open(mp, "w"), indent=1)
base = int(os.environ.get("LANE_BASE", "0"))
ts = [threading.Thread(target=worker, args=(base + k,)) for k in range(1, n + 1)]
[t.start() for t in ts]
[t.join() for t in ts]
print("lanes finished", flush=True)
