"""Shared pipeline of the presentation-verifier checks (C01, C02, C05, C09, C11 ...):
scenario -> harness (external prover + real Presentation::verify) -> Coq model verdict -> comparison."""
import json, random
import common as C

EXTRA_VO = ["Exec/RunPres.vo"]
HEADER = """From Coq Require Import ZArith List String.
From ACV Require Import Model.Field Model.Pres Exec.ZrBig Exec.RunPres.
Import ListNotations. Open Scope Z_scope."""

# deviations after which acceptance is a violation of the named property
MUST_REJECT = {
    "variant_under_sig": "C01", "omit_sig": "C01", "resp_len": "C01", "resp_len_exploit": "C01", "identity": "C01",
    "random_e2": "C01", "wrong_secret": "C01", "challenge_arbitrary": "C01", "other_issuer_sig": "C01",
    "subst_disclosed_everywhere": "C01", "forged_missing_entry": "C01", "swap_disclosed_everywhere": "C02", "false_zero_disclosed": "C02",
    "false_reported_subst": "C02", "false_reported_type": "C02", "false_reported_omit": "C02", "false_reported_extra": "C02",
    "false_reported_unknown_label": "C02", "false_reported_swap": "C02", "disc_reverse": "C02", "disc_dup": "C02",
    "disc_pad_oob_first": "C02", "disc_pad_oob_last": "C02", "disc_withhold": "C02", "reported_missing_entry": "C02",
    "comm_subst_shared": "C05", "reorder_shift_exploit": "C05", "comm_subst_independent": "C05", "inner_id_other": "C05", "omit_pred": "C05",
    "eq_independent_nonces": "C09", "eq_copy_response": "C09", "eq_unequal_shared_nonce": "C09", "eq_one_side_disclosed": "C09", "eq_disc_reverse_exploit": "C09",
    "withhold_consistent": "C02", "extra_consistent": "C02",
    "rev_other_element_shared": "C05", "rev_other_element_independent": "C05", "rev_tamper_sy": "C11",
    "venc_no_dec_part": "C10", "venc_subst_shared": "C10", "venc_subst_independent": "C10",
    "tamper_extend_minus_c": "C11", "tamper_extend_zero": "C11", "tamper_shorten": "C11",
    "tamper_resp": "C11", "tamper_resp_neg": "C11", "tamper_resp_swap": "C11", "tamper_e1": "C11", "tamper_e2": "C11", "tamper_e3": "C11",
    "tamper_disc_scalar": "C11", "tamper_bp": "C11", "tamper_C": "C11", "tamper_reported": "C11",
}


def hz(h):
    return str(int(h, 16))


def coq_pk(s):
    return f"(mkPk Zr {'PS' if s['suite'] == 'ps' else 'BBS'} (z {hz(s['x'])}) (z {hz(s['w'])}) (zs [{';'.join(hz(y) for y in s['y'])}]))"


def nl(l):
    return "[" + ";".join(f"{int(x)}%nat" for x in l) + "]"


def coq_schema(sch):
    out = []
    for s in sch:
        if s["k"] == "sig":
            out.append(f"SSig Zr {s['id']}%nat {coq_pk(s)} {nl(s['req'])}")
        elif s["k"] == "eq":
            out.append(f"SEq Zr {s['id']}%nat [" + ";".join(f"({r[0]}%nat,{r[1]}%nat)" for r in s["refs"]) + "]")
        elif s["k"] == "rev":
            out.append(f"SRev Zr {s['id']}%nat {s['ref']}%nat {s['claim']}%nat")
        elif s["k"] == "venc":
            out.append(f"SVenc Zr {s['id']}%nat {s['ref']}%nat {s['claim']}%nat (z {hz(s['gm'])}) (z {hz(s['ek'])}) {C.cbool(s['dec'])}")
        else:
            out.append(f"SComm Zr {s['id']}%nat {s['ref']}%nat {s['claim']}%nat (z {hz(s['gm'])}) (z {hz(s['gb'])})")
    return "[" + "; ".join(out) + "]"


def coq_proof(p):
    if p["k"] == "sig":
        disc = "(zp [" + ";".join(f"({d[0]}%nat,{hz(d[1])})" for d in p["disc"]) + "])"
        resp = "(zs [" + ";".join(hz(r) for r in p["resp"]) + "])"
        con = "PokPS" if p["suite"] == "ps" else "PokBBS"
        return f"PSig Zr (mkSp Zr {p['id']}%nat {disc} ({con} Zr (z {hz(p['e1'])}) (z {hz(p['e2'])}) (z {hz(p['e3'])}) {resp}))"
    if p["k"] == "eq":
        return f"PEq Zr {p['id']}%nat"
    if p["k"] == "comm":
        return f"PComm Zr {p['id']}%nat (z {hz(p['c'])}) (z {hz(p['bp'])})"
    if p["k"] == "venc":
        return f"PVenc Zr {p['id']}%nat (z {hz(p['c1'])}) (z {hz(p['c2'])}) (z {hz(p['bp'])}) {C.cbool(p['has'])}"
    if p["k"] == "rev":
        return f"PRev Zr {p['id']}%nat (z {hz(p['sy'])}) (z {hz(p['fin'])})"
    return f"POther Zr {p['id']}%nat"


def coq_pres(P):
    proofs = "[" + "; ".join(f"({k}%nat, {coq_proof(p)})" for k, p in P["proofs"]) + "]"
    rep = "[" + "; ".join(f"({k}%nat, zp [" + ";".join(f"({lv[0]}%nat,{hz(lv[1])})" for lv in l) + "])" for k, l in P["reported"]) + "]"
    return f"(mkPres Zr {proofs} (z {hz(P['challenge'])}) {rep})"


def coq_case(r):
    return f"mkCase ({coq_schema(r['schema'])}) {coq_pres(r['P0'])} {coq_pres(r['P'])} {C.cbool(r['derived'])}"


CLAIM_POOL = ["h:Alice", "h:Bob", "n:41", "n:-7", "h:", "h:90210", "n:0", "h:Zoe"]


def base_scenario(rng, suite, n_creds=1, n_claims=None, eq=False, comm=False, disclosed=None, venc=None, rev=False, one_issuer=False, mem=False):
    creds = []
    n_issuers = (1 if one_issuer else rng.choice([1, n_creds])) if n_creds > 1 else 1
    common_val = rng.choice(["h:Alice", "h:link", "n:5"])
    for ci in range(n_creds):
        n = n_claims or rng.randrange(3, 6)
        claims = [f"r:id-{ci}-{rng.randrange(1000)}"] + [rng.choice(CLAIM_POOL) for _ in range(n - 1)]
        if eq:
            claims[1] = common_val
        creds.append({"issuer": ci % n_issuers, "claims": claims})
    # credentials of the same issuer must have the same schema shape (claim types per position)
    for ci in range(n_creds):
        ref = next(c for c in creds if c["issuer"] == creds[ci]["issuer"])
        if len(ref["claims"]) != len(creds[ci]["claims"]):
            creds[ci]["claims"] = [creds[ci]["claims"][0]] + ref["claims"][1:]
        else:
            creds[ci]["claims"] = [creds[ci]["claims"][0]] + [
                (c if c[:2] == r[:2] else r) for c, r in zip(creds[ci]["claims"][1:], ref["claims"][1:])]
        if eq:
            creds[ci]["claims"][1] = common_val
    stmts = []
    for ci, c in enumerate(creds):
        n = len(c["claims"])
        cand = list(range(2, n)) if (eq or comm or mem) else list(range(1, n))
        if disclosed is not None:
            d = [i for i in disclosed if i < n]
        else:
            d = sorted(rng.sample(cand, rng.randrange(0, len(cand) + 1))) if cand else []
        stmts.append({"k": "sig", "id": f"s{ci}", "cred": ci, "disclosed": d})
    if eq and n_creds >= 2:
        stmts.append({"k": "eq", "id": "e0", "refs": [[f"s{ci}", 1] for ci in range(n_creds)]})
    if comm:
        # commitment on a hidden claim of credential 0
        n = len(creds[0]["claims"])
        hidden = [i for i in range(n) if i not in stmts[0]["disclosed"]]
        claim = rng.choice(hidden) if hidden else 0
        if eq and rng.random() < 0.5:
            claim = 1
        stmts.append({"k": "comm", "id": "c0", "ref": "s0", "claim": claim})
    if rev:
        # revocation statement on the identifier (claim 0) of credential 0; the registry value is the issuer's current one
        stmts.append({"k": "rev", "id": "r0", "ref": "s0", "claim": 0})
    if mem:
        # set-membership statement (the verifier's own accumulator) on a hidden claim of credential 0
        n = len(creds[0]["claims"])
        sig0 = next(x for x in stmts if x["k"] == "sig" and x["id"] == "s0")
        hidden = [i for i in range(1, n) if i not in sig0["disclosed"]]
        stmts.append({"k": "mem", "id": "m0", "ref": "s0", "claim": rng.choice(hidden) if hidden else 0})
    if venc is not None:
        n = len(creds[0]["claims"])
        sig0 = next(x for x in stmts if x["k"] == "sig" and x["id"] == "s0")
        hidden = [i for i in range(n) if i not in sig0["disclosed"]]
        claim = rng.choice(hidden) if hidden else 0
        stmts.append({"k": "venc", "id": "v0", "ref": "s0", "claim": claim, "dec": bool(venc)})
    if rng.random() < 0.3 and len(stmts) > 1:
        # statement order in the schema is arbitrary
        rng.shuffle(stmts)
    return {"op": "f_pres", "suite": suite, "seed": rng.randrange(1 << 30), "n_issuers": n_issuers, "creds": creds, "stmts": stmts,
            "dev": {"k": "none"}}


def run(pid, scenarios, tag="cases"):
    """returns list of dict(scn, impl, model, raw)"""
    impl = C.run_exec_parallel(scenarios, nproc=16)
    good = [(s, r) for s, r in zip(scenarios, impl) if r.get("r") == "ok" and "schema" in r]
    bad = [(s, r) for s, r in zip(scenarios, impl) if not (r.get("r") == "ok" and "schema" in r)]
    model = C.run_model(pid, HEADER, [coq_case(r) for _, r in good], shard_size=max(4, len(good) // 32 + 1), timeout=1800, tag=tag)
    out = [{"scn": s, "impl": r["impl"], "model": m, "derived": r["derived"], "dummy": r.get("dummy"), "detail": r.get("detail", "")}
           for (s, r), m in zip(good, model)]
    for s, r in bad:
        out.append({"scn": s, "impl": "harness-failure", "model": "?", "derived": None, "dummy": None, "detail": json.dumps(r)[:300]})
    return out


def judge(pid, results, own_props):
    """compare; own_props = property ids whose MUST_REJECT deviations count as witnesses for this check"""
    failures = []
    hist = {"accept": 0, "reject": 0, "panic": 0, "model_struct": 0, "model_fs": 0, "model_post": 0, "model_accept": 0, "by_dev": {}}
    distinct = set()
    for x in results:
        s = x["scn"]
        dev = s["dev"]["k"]
        hist["by_dev"][dev] = hist["by_dev"].get(dev, 0) + 1
        hist[x["impl"]] = hist.get(x["impl"], 0) + 1
        hist["model_" + x["model"]] = hist.get("model_" + x["model"], 0) + 1
        case = {"scenario": s, "impl": x["impl"], "model": x["model"], "detail": x["detail"], "dummy": x["dummy"]}
        distinct.add(C.case_hash([s["suite"], s["stmts"], s["dev"], [len(c["claims"]) for c in s["creds"]]]))
        if x["impl"] == "harness-failure":
            failures.append({"class": None, "witness": False, "text": "harness failure: " + x["detail"], "case": case})
            continue
        impl_acc = x["impl"] == "accept"
        model_acc = x["model"] == "accept"
        must_reject = MUST_REJECT.get(dev)
        if dev == "none" and not impl_acc:
            failures.append({"class": None, "witness": True,
                             "text": f"honest presentation (external prover, {s['suite']}) is not accepted: impl={x['impl']} {x['detail']} model={x['model']}", "case": case})
        elif must_reject and impl_acc:
            failures.append({"class": None, "witness": True,
                             "text": f"deviating holder '{dev}' ({must_reject}) obtains ACCEPTANCE from Presentation::verify ({s['suite']}); model verdict {x['model']}", "case": case})
        elif impl_acc != model_acc:
            failures.append({"class": None, "witness": False,
                             "text": f"model/implementation correspondence broken: impl={x['impl']} ({x['detail']}) model={x['model']} dev={dev}", "case": case})
    return failures, hist, len(distinct)
