"""C01 — unforgeability: an accepted presentation is backed by a valid issuer signature (partial)."""
import pres_common as PC
import pres_check as K

EXTRA_VO = PC.EXTRA_VO
TRUSTED_BASE = K.TRUSTED_COMMON + [
    "PARTIAL: theorems carry dispatch, response-length, Fiat-Shamir and proof-of-knowledge checks plus special soundness (explicit extractors for BBS and PS); the final step 'no efficient party without a signature can produce an accepting presentation' is q-SDH / PS assumption + forking lemma in the random-oracle model, assumed",
]
ASSUMPTIONS = ["q-SDH (BBS), PS assumption, Fiat-Shamir knowledge soundness in the ROM", "verification keys are valid (non-identity generators)"]

DEVS = [
    {"dev": {"k": "variant_under_sig", "variant": "eq"}},
    {"dev": {"k": "variant_under_sig", "variant": "comm"}},
    {"dev": {"k": "omit_sig"}},
    {"dev": {"k": "resp_len", "delta": 1}},
    {"dev": {"k": "resp_len", "delta": 2}},
    {"dev": {"k": "resp_len", "delta": -1}},
    {"dev": {"k": "resp_len", "delta": -2}},
    {"dev": {"k": "resp_len_exploit"}, "need_disclosed": 1},
    {"dev": {"k": "identity"}},
    {"dev": {"k": "random_e2"}},
    {"dev": {"k": "wrong_secret", "slot": 0}},
    {"dev": {"k": "wrong_secret", "slot": 1}},
    {"dev": {"k": "wrong_secret", "slot": 2}},
    {"dev": {"k": "tamper_extend_minus_c"}}, {"dev": {"k": "tamper_extend_zero"}}, {"dev": {"k": "tamper_shorten"}},
    {"dev": {"k": "challenge_arbitrary"}},
    {"dev": {"k": "subst_disclosed_everywhere"}, "need_disclosed": 1},
    {"dev": {"k": "other_issuer_sig"}},
    # no entry for the statement in the reported-claims map (with and without a forged proof), also when nothing is to be disclosed
    {"dev": {"k": "reported_missing_entry"}},
    {"dev": {"k": "forged_missing_entry"}},
]
SHAPES = [dict(n_creds=1), dict(n_creds=1, comm=True), dict(n_creds=2, eq=True), dict(n_creds=2, eq=True, comm=True), dict(n_creds=2), dict(n_creds=1, disclosed=[]), dict(n_creds=2, disclosed=[])]


def explore(ctx):
    return K.explore_generic("C01", ctx, DEVS, SHAPES, {"C01"},
                             "(proof of another variant / no proof under a signature id, response vectors of length hidden+2-2..+2 incl. the exploited hidden+3 vector, identity elements, unrelated b_bar/sigma_2, wrong secret in each slot, arbitrary challenge, signature of another credential/issuer, substituted disclosed value, the statement's entry missing from the reported-claims map with an honest and with a forged proof, also for statements that disclose nothing)")
